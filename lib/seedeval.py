#!/usr/bin/env python3
"""Confirm and evaluate seeded changes produced by independent sub-agents.

  seedeval.py confirm <worktree> <PID> <X>      confirm in the scratch worktree (builds, 45 tests pass, demo fails with / passes without)
                                                and store it as /verif/seeded/<PID>-<X>/
  seedeval.py detect <PID>-<X> [props...] [--tier quick|thorough]
                                                apply the stored patch to /repo, run the checks, undo, record the outcome
"""
import json, os, re, shutil, subprocess, sys, time

SEEDED = "/verif/seeded"
TEST_CMD = ["cargo", "nextest", "run", "--workspace", "--no-fail-fast", "--tool-config-file", "pb:/w/lib/nextest.toml", "--profile", "pb", "--test-threads", "8", "--offline"]


def sh(cmd, cwd, timeout=3600):
    p = subprocess.run(cmd, cwd=cwd, stdout=subprocess.PIPE, stderr=subprocess.STDOUT, text=True, timeout=timeout)
    return p.returncode, p.stdout


def confirm(wt, pid, x, tag=""):
    src = os.path.join(wt, "_seeded", x)
    ran = []
    patch = os.path.join(src, "patch.diff")
    demo = os.path.join(src, "demo.rs")
    assert os.path.exists(patch), patch
    sh(["git", "checkout", "--", "src"], wt)
    demo_name = f"seeded_demo_{pid.lower()}_{x.lower()}"
    has_demo = os.path.exists(demo)
    if has_demo:
        shutil.copy(demo, os.path.join(wt, "tests", demo_name + ".rs"))
    res = {}
    try:
        # unchanged tree: demo passes
        if has_demo:
            rc, out = sh(["cargo", "test", "--offline", "--features", "verif,csv,arrow,parquet", "--test", demo_name], wt)
            res["demo_passes_unchanged"] = rc == 0
            ran.append(f"unchanged tree: cargo test --offline --features verif,csv,arrow,parquet --test {demo_name} -> rc {rc}")
        rc, out = sh(["git", "apply", patch], wt)
        assert rc == 0, out
        builds = []
        for feats in ([], ["--features", "verif"], ["--features", "csv,arrow,parquet"]):
            rc, out = sh(["cargo", "build", "--offline"] + feats, wt)
            builds.append(rc == 0)
            ran.append("with change: cargo build --offline " + " ".join(feats) + f" -> rc {rc}")
        res["builds"] = all(builds)
        if has_demo:
            rc, out = sh(["cargo", "test", "--offline", "--features", "verif,csv,arrow,parquet", "--test", demo_name], wt)
            res["demo_fails_with_change"] = rc != 0
            ran.append(f"with change: cargo test --offline --features verif,csv,arrow,parquet --test {demo_name} -> rc {rc}")
            os.remove(os.path.join(wt, "tests", demo_name + ".rs"))
        rc, out = sh(TEST_CMD, wt)
        m = re.search(r"(\d+) tests run: (\d+) passed", out)
        res["suite"] = m.group(0) if m else out[-300:]
        res["suite_passes"] = bool(m) and m.group(1) == m.group(2) == "45"
        ran.append(f"with change: pinned suite -> {res['suite']}")
    finally:
        sh(["git", "checkout", "--", "src"], wt)
        p = os.path.join(wt, "tests", demo_name + ".rs")
        if os.path.exists(p):
            os.remove(p)
    ok = res.get("builds") and res.get("suite_passes") and (not has_demo or (res.get("demo_passes_unchanged") and res.get("demo_fails_with_change")))
    dst = os.path.join(SEEDED, f"{pid}-{tag}{x}")
    if ok:
        os.makedirs(dst, exist_ok=True)
        shutil.copy(patch, os.path.join(dst, "patch.diff"))
        if has_demo:
            shutil.copy(demo, os.path.join(dst, "demo.rs"))
        meta = {}
        mp = os.path.join(src, "meta.json")
        if os.path.exists(mp):
            try:
                meta = json.load(open(mp))
            except Exception:
                meta = {"raw": open(mp).read()}
        meta.update({"id": f"{pid}-{tag}{x}", "property": pid, "confirmed": res, "what_i_ran": ran, "origin": "independent sub-agent given only the property text and a scratch worktree"})
        json.dump(meta, open(os.path.join(dst, "meta.json"), "w"), indent=1)
    print(("CONFIRMED " if ok else "REJECTED ") + f"{pid}-{tag}{x} {res}")
    return ok


def detect(sid, props, tier):
    d = os.path.join(SEEDED, sid)
    meta = json.load(open(os.path.join(d, "meta.json")))
    props = props or [meta["property"]]
    repo = os.environ.get("REPO_ROOT", "/repo")
    rc, out = sh(["git", "status", "--porcelain"], repo)
    assert out.strip() == "", repo + " is not clean: " + out
    rc, out = sh(["git", "apply", os.path.join(d, "patch.diff")], repo)
    assert rc == 0, out
    results = meta.get("detection", {})
    try:
        for p in props:
            t0 = time.time()
            root = os.environ.get("VERIF_ROOT", "/verif")
            tag = os.environ.get("VERIF_TAG", "")
            rc, out = sh(["./check", p, "--tier", tier], root, timeout=14400)
            sigs = sorted(set(re.findall(r"^   sig: (.*)$", out, flags=re.M)))
            results[f"{p}:{tier}{tag}"] = {"exit": rc, "detected": rc == 1, "sigs": sigs[:6], "wall_s": round(time.time() - t0, 1)}
            print(f"{sid} {p} {tier}: exit={rc} detected={rc == 1} sigs={sigs[:3]}")
    finally:
        sh(["git", "checkout", "--", "."], repo)
        # evidence files of the mutated run are not evidence: restore the committed ones
        sh(["git", "checkout", "--", "evidence"], os.environ.get("VERIF_ROOT", "/verif"))
        shutil.rmtree(os.path.join(os.environ.get("VERIF_ROOT", "/verif"), "replay"), ignore_errors=True)
    meta["detection"] = results
    json.dump(meta, open(os.path.join(d, "meta.json"), "w"), indent=1)


if __name__ == "__main__":
    if sys.argv[1] == "confirm":
        confirm(sys.argv[2], sys.argv[3], sys.argv[4], sys.argv[5] if len(sys.argv) > 5 else "")
    else:
        tier = "quick"
        args = sys.argv[3:]
        if "--tier" in args:
            i = args.index("--tier")
            tier = args[i + 1]
            args = args[:i] + args[i + 2:]
        detect(sys.argv[2], args, tier)
