"""Sanitizer passes (secondary oracle): Miri / ThreadSanitizer / AddressSanitizer over the small
dedicated workloads of /verif/harness/san (bin `sanwl`). Thorough tier only.

A report is attributed to the property (and becomes a VIOLATION) only if a `mini_mcmc::` frame
appears in it, or if the workload's own functional assertion failed; reports entirely inside
third-party crates are recorded as `third_party_reports` and do not fail the check.
"""
import os, re, subprocess, time

SAN = os.path.join(os.path.dirname(os.path.dirname(os.path.abspath(__file__))), "harness", "san")
TARGET = "x86_64-unknown-linux-gnu"

# property -> [(tool, workload, size)]
PLAN = {
    "C02": [("miri", "hmc", 1)],
    "C03": [("miri", "nuts", 1)],
    "C07": [("miri", "concurrent", 1), ("miri", "runner", 1), ("tsan", "concurrent", 3)],
    "C09": [("miri", "runner", 2), ("tsan", "runner", 4)],
    "C10": [("miri", "proto", 1), ("tsan", "proto", 1)],
    "C11": [("asan", "stats", 2), ("miri", "stats", 1)],
    "C12": [("asan", "stats", 2)],
    "C13": [("miri", "trackers", 1), ("asan", "trackers", 4)],
    "C16": [("miri", "cat", 1)],
    "C18": [("miri", "cat", 1)],
    "C17": [("asan", "io", 3)],
}

MIRIFLAGS = "-Zmiri-disable-isolation -Zmiri-tree-borrows -Zmiri-permissive-provenance -Zmiri-ignore-leaks"


def _env(extra):
    e = dict(os.environ, CARGO_NET_OFFLINE="true")
    e.update(extra)
    return e


def _build(tool, log):
    t0 = time.time()
    if tool == "miri":
        # `cargo miri run` builds on demand; warm the build with the cheapest workload
        return True, 0.0
    if tool == "tsan":
        cmd = ["cargo", "+nightly", "build", "--offline", "-Zbuild-std", "--target", TARGET]
        env = _env({"RUSTFLAGS": "-Zsanitizer=thread", "CARGO_TARGET_DIR": f"{SAN}/target-tsan"})
    else:
        cmd = ["cargo", "+nightly", "build", "--offline", "--features", "io", "--target", TARGET]
        env = _env({"RUSTFLAGS": "-Zsanitizer=address -Cforce-frame-pointers=yes", "CARGO_TARGET_DIR": f"{SAN}/target-asan"})
    p = subprocess.run(cmd, cwd=SAN, env=env, stdout=subprocess.PIPE, stderr=subprocess.STDOUT, text=True)
    if p.returncode != 0:
        log(f"   sanitizer build ({tool}) failed:\n" + p.stdout[-1500:])
        return False, time.time() - t0
    return True, time.time() - t0


def _classify(tool, out, rc):
    """returns (reports attributed to mini-mcmc, third-party reports)"""
    mine, third = [], []
    blocks = []
    if tool == "miri":
        blocks = re.findall(r"(error: (?:Undefined Behavior|unsupported operation|.*[Dd]ata race|memory leaked).*?)(?=\n\n\S|\Z)", out, flags=re.S)
    elif tool == "tsan":
        blocks = re.findall(r"(WARNING: ThreadSanitizer:.*?={10,})", out, flags=re.S)
    else:
        blocks = re.findall(r"(ERROR: (?:AddressSanitizer|LeakSanitizer).*?(?:ABORTING|\Z))", out, flags=re.S)
    for b in blocks:
        first = b.strip().splitlines()[0][:200]
        frames = re.findall(r"(mini_mcmc::[A-Za-z0-9_:<>]+)", b)
        rec = {"sig": first, "first_mini_mcmc_frame": frames[0] if frames else None, "excerpt": b[:1200]}
        (mine if frames else third).append(rec)
    if "SANWL-OK" not in out and not blocks:
        m = re.search(r"(panicked at .*?)(?:\nnote:|\Z)", out, flags=re.S)
        mine.append({"sig": "workload assertion failed: " + (m.group(1)[:200].replace("\n", " ") if m else f"exit status {rc}"),
                     "first_mini_mcmc_frame": None, "excerpt": out[-1500:]})
    return mine, third


def run(pid, tier, seed, cfg, log):
    if tier != "thorough" or pid not in PLAN or os.environ.get("VERIF_NO_SANITIZERS"):
        return []
    passes = []
    built = {}
    for tool, wl, size in PLAN[pid]:
        if tool not in built:
            built[tool] = _build(tool, log)
        ok, build_s = built[tool]
        rec = {"tool": tool, "workload": wl, "runs": 0, "executions": 0, "reports": [], "third_party_reports": 0, "build_s": round(build_s, 1)}
        if not ok:
            rec["status"] = "build failed: inconclusive"
            passes.append(rec)
            continue
        t0 = time.time()
        scratch = f"{SAN}/target-asan/scratch"
        os.makedirs(scratch, exist_ok=True)
        if tool == "miri":
            n_seeds = 8 if wl in ("proto", "concurrent", "runner") else 1
            flags = MIRIFLAGS + (f" -Zmiri-many-seeds={seed % 1000}..{seed % 1000 + n_seeds}" if n_seeds > 1 else f" -Zmiri-seed={seed % 1000}")
            cmd = ["cargo", "+nightly", "miri", "run", "--offline", "--", wl, str(size)]
            env = _env({"MIRIFLAGS": flags, "CARGO_TARGET_DIR": f"{SAN}/target-miri"})
            runs = n_seeds
        elif tool == "tsan":
            cmd = [f"{SAN}/target-tsan/{TARGET}/debug/sanwl", wl, str(size)]
            env = _env({"TSAN_OPTIONS": "halt_on_error=0 exitcode=66 second_deadlock_stack=1"})
            runs = 5
        else:
            cmd = [f"{SAN}/target-asan/{TARGET}/debug/sanwl", wl, str(size), scratch]
            env = _env({"ASAN_OPTIONS": "detect_leaks=1:halt_on_error=0"})
            runs = 3
        outs = []
        reps = 1 if tool == "miri" else runs
        timed_out = False
        for _ in range(reps):
            try:
                p = subprocess.run(cmd, cwd=SAN, env=env, stdout=subprocess.PIPE, stderr=subprocess.STDOUT, text=True, timeout=3600)
                outs.append((p.stdout, p.returncode))
            except subprocess.TimeoutExpired:
                timed_out = True
                break
        rec["runs"] = runs
        rec["executions"] = runs
        for out, rc in outs:
            mine, third = _classify(tool, out, rc)
            rec["reports"] += mine
            rec["third_party_reports"] += len(third)
            rec["ok_lines"] = rec.get("ok_lines", 0) + out.count("SANWL-OK")
        rec["status"] = "watchdog: inconclusive" if timed_out else ("clean" if not rec["reports"] else "reports")
        rec["wall_s"] = round(time.time() - t0, 1)
        # dedupe reports by signature
        seen, uniq = set(), []
        for r in rec["reports"]:
            if r["sig"] not in seen:
                seen.add(r["sig"])
                uniq.append(r)
        rec["reports"] = uniq
        log(f"   sanitizer pass {tool}:{wl} runs={runs} status={rec['status']} third_party={rec['third_party_reports']} wall={rec['wall_s']}s")
        passes.append(rec)
    return passes
