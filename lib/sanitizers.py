"""Sanitizer passes (secondary oracle): Miri / TSan / ASan over small dedicated workloads."""


def run(pid, tier, seed, cfg, log):
    return []
