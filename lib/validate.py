#!/usr/bin/env python3
"""Validate MANIFEST.json and evidence files against the schemas (uses the tooling venv's jsonschema)."""
import json, sys, glob
import jsonschema
ok = True
m = json.load(open('/verif/MANIFEST.json'))
jsonschema.validate(m, json.load(open('/root/.vp/MANIFEST.schema.json')))
print('MANIFEST valid,', len(m['checks']), 'checks')
es = json.load(open('/root/.vp/EVIDENCE.schema.json'))
for f in sorted(glob.glob('/verif/evidence/*.json')):
    try:
        jsonschema.validate(json.load(open(f)), es); print('ok', f)
    except Exception as e:
        ok = False; print('INVALID', f, str(e)[:300])
sys.exit(0 if ok else 1)
