#!/bin/bash
# Re-run the detection of every stored seeded change against the *current* checks, in an isolated
# sandbox (a worktree of /repo and one of /verif whose harness points at it), so that /repo itself
# is never touched and background runs are not disturbed.
#   lib/seedall.sh [ids...]        results: seeded/REGRESSION.txt
set -u
DET=/tmp/det
mkdir -p $DET
[ -d $DET/repo ] || git -C /repo worktree add -q $DET/repo HEAD
[ -d $DET/verif ] || git -C /verif worktree add -q $DET/verif HEAD
(cd $DET/repo && git checkout -q -- . && git checkout -q --detach "$(git -C /repo rev-parse HEAD)")
(cd $DET/verif && git checkout -q -- . && git checkout -q --detach "$(git -C /verif rev-parse HEAD)" && sed -i 's|path = "/repo"|path = "'$DET'/repo"|' harness/Cargo.toml)
ids="$*"
[ -z "$ids" ] && ids=$(ls /verif/seeded | grep '^C' | tr '\n' ' ')
out=/verif/seeded/REGRESSION.txt
# APPEND=1: keep the existing file and add the given ids (checks only ever grow, so older lines stay valid)
if [ "${APPEND:-0}" = "1" ]; then
  echo "# appended: (verif $(git -C /verif rev-parse --short HEAD), repo $(git -C /repo rev-parse --short HEAD))" >> $out
else
  echo "# detection of every seeded change by the quick tier of the check of its own property (verif $(git -C /verif rev-parse --short HEAD), repo $(git -C /repo rev-parse --short HEAD))" > $out
fi
for s in $ids; do
  REPO_ROOT=$DET/repo VERIF_ROOT=$DET/verif VERIF_TAG="@regression" python3 /verif/lib/seedeval.py detect $s 2>&1 | tail -1 | cut -c1-300 >> $out
done
# changes whose demonstration targets one property but whose mechanism belongs to a sibling property
declare -A SIB=( [C04-2B]=C09 [C06-2B]=C02 [C06-B]=C08 [C12-2B]=C11 [C06-3A]=C03 [C07-4A]=C01 [C12-5B]=C11 [C14-5A]=C02 [C14-5B]=C03 [C01-6A]=C08 [C04-6A]=C03 [C04-6B]=C09 )
for s in "${!SIB[@]}"; do
  if echo " $ids " | grep -q " $s "; then
    REPO_ROOT=$DET/repo VERIF_ROOT=$DET/verif VERIF_TAG="@regression" python3 /verif/lib/seedeval.py detect $s ${SIB[$s]} 2>&1 | tail -1 | cut -c1-300 >> $out
  fi
done
echo "detected lines: $(grep -c "detected=True" $out) of $(grep -c "detected=" $out)"  # (a change listed in SIB has two lines: own property, sibling)
