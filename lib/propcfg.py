"""Per-property configuration of the driver: sharding, watchdogs, environment, evidence texts."""

COMMON_ASSUME = [
    "the harness's f64 reference implementations and closed-form targets are themselves correct (they are cross-checked against finite differences / quadrature where stated)",
    "rustc/LLVM, libm, rand 0.9.2, burn-ndarray 0.18, ndarray 0.16 behave as documented; the release profile of the harness (opt-level 2, debug assertions and overflow checks on) is representative",
    "only executions produced by this run are covered: the listed workload families, sizes and seeds",
]


def P(rule, assumptions, shards=(8, 16), timeout=(900, 7200), env=None):
    e = {"RAYON_NUM_THREADS": "1"}
    if env is not None:
        e = env
    return {"rule": rule, "assumptions": assumptions + COMMON_ASSUME,
            "shards": {"quick": shards[0], "thorough": shards[1]},
            "timeout": {"quick": timeout[0], "thorough": timeout[1]}, "env": e}


PROPS = {
    "C01": P(
        "monitor 'table': random finite state spaces (2..8 states, dyadic log-p/log-q tables with -inf/+inf/NaN entries, state element types f32/f64/i32/usize x float types f32/f64, extra state coordinates holding NaN payloads/-0.0/extremes); for every ordered pair (x,y) the real MHMarkovChain::step is executed with a scripted candidate and an acceptance draw injected through the public rng field (u=0, smallest positive, 1-ulp, 0.5, random, plus a bisection over all representable u for the decision boundary); oracle: moved <=> ln u < ratio in F, bitwise state comparison, realised acceptance probability = min(1,exp(ratio)), detailed balance on the realised probabilities. monitor 'shadow': real programs (library Gaussian2D/IsotropicGaussian, asymmetric log-normal random walk, independence sampler, reflecting integer walk, -inf and NaN-region targets); u read from a clone of chain.rng before each step, candidate recorded by a wrapper; predicted state compared bit for bit. A case is distinct by (monitor, types, table shape/flags) or (program, float type, seed) and each observed decision boundary position; non-trivial = at least one step executed and checked.",
        ["the acceptance draw is the next uniform of the chain's public rng field (the property's own anchor); it is read back from a clone, never assumed from the crafted state"],
    ),
    "C05": P(
        "recording Conditional whose every answer is a globally unique value (call counter encoded in the number, sometimes NaN payloads/subnormals); element types f64/f32/i32, d in 1..64, 1..60 steps; either direct GibbsMarkovChain::step calls or GibbsSampler::run with 1..16 chains under rayon pools of 1/2/3/8/16 threads. History checker: per step the indices asked are exactly {0..d-1}, every `given` equals (bit for bit) the shadow state with all earlier answers of the same step written in, the state after the step equals the shadow, and every collected row of run() equals the swept state. Distinct by (type, d, weird-values flag, steps); non-trivial = at least one full sweep checked.",
        ["the joint-invariance consequence is not re-derived here; C06 checks Gibbs output moments statistically"],
    ),
    "C07": P(
        "configurations (sampler kind in MH with user-seeded proposal / MH with freshly constructed proposal / Gibbs with a state-deterministic conditional / HMC f64 / HMC f32 / NUTS; 1..6 chains; dim 1..4; run lengths; seeds random and {0,1,2^32,u64::MAX-k,u64::MAX}); for each: output bytes of run() compared across repeated construction, a rayon pool of 1/2/3/8/16 threads, 1..3 other samplers (incl. HMC/NUTS and direct draws from burn's process-global generator) running concurrently in other threads, run_progress (NUTS: shifted by one draw) for every 4th case, and seed+1 (must differ when any chain moved). init_with_seed/init_det purity on n in 0..40, d in 0..12. Distinct by configuration and by output hash; non-trivial = outputs compared.",
        ["'same inputs' for MH includes a proposal built by the same constructor expression without an explicit set_seed (the sampler seed is documented to make runs reproducible)",
         "thread interleavings are those the OS scheduler produced during the run (plus Miri/TSan passes in the thorough tier); no schedule enumeration"],
        env={},
    ),
    "C08": P(
        "multi-chain samplers with 2..64 chains all started from one common state, seeded (seeds incl. 0 and values whose per-chain offsets wrap) and unseeded: MH with the library's IsotropicGaussian and with a user-defined seedable proposal exposing its generator (proposal seeded by the user or not), HMC batches, NUTS. Observed: next 4 outputs of clones of chains[i].rng, next proposal from the common state drawn from clones of chains[i].proposal, what the proposal would draw if its generator were a copy of the acceptance generator, and trajectories; oracle: all chain pairs differ in acceptance stream, proposal stream and in state at the first step where either moves; acceptance generator != proposal generator within a chain. Distinct by configuration.",
        ["two generators are 'the same stream' iff their next 4 64-bit outputs coincide"],
    ),
    "C09": P(
        "monitor 'counting': user-defined MarkovChain/HasChains whose state is (transition count, chain id, mixed) for element types f64/i32/f32; n_chains 1..32, dim 1..16, sequences of 1..3 run(n_collect 0..40, n_discard 0..40) calls, rayon pools 1/2/3/5/8/16, optional per-chain sleeps; every cell must identify chain c after n_discard+k+1 transitions since the call, step counters must equal n_collect+n_discard. monitor 'real': MH/Gibbs/HMC seeded twins: run(a,d)+run(b,0) == run(a+b,d) bit for bit == manual stepping, HMC step count from the hook trace; NUTS: multi-chain runner == individually seeded chains, row k == traced state after n_discard+k transitions, transitions == n_collect+n_discard-1. Distinct by (type, n_chains, n_collect, n_discard, dim, threads) resp. sampler configuration.",
        ["seeded twins are bit-reproducible (C07)"],
        env={},
    ),
}
