"""Per-property configuration of the driver: sharding, watchdogs, environment, evidence texts."""

COMMON_ASSUME = [
    "the harness's f64 reference implementations and closed-form targets are themselves correct (they are cross-checked against finite differences / quadrature where stated)",
    "rustc/LLVM, libm, rand 0.9.2, burn-ndarray 0.18, ndarray 0.16 behave as documented; the release profile of the harness (opt-level 2, debug assertions and overflow checks on) is representative",
    "only executions produced by this run are covered: the listed workload families, sizes and seeds",
]


def P(rule, assumptions, shards=(8, 16), timeout=(900, 7200), env=None):
    e = {"RAYON_NUM_THREADS": "1"}
    if env is not None:
        e = env
    return {"rule": rule, "assumptions": assumptions + COMMON_ASSUME,
            "shards": {"quick": shards[0], "thorough": shards[1]},
            "timeout": {"quick": timeout[0], "thorough": timeout[1]}, "env": e}


PROPS = {
    "C01": P(
        "monitor 'table': random finite state spaces (2..8 states, dyadic log-p/log-q tables with -inf/+inf/NaN entries, state element types f32/f64/i32/usize x float types f32/f64, extra state coordinates holding NaN payloads/-0.0/extremes); for every ordered pair (x,y) the real MHMarkovChain::step is executed with a scripted candidate and an acceptance draw injected through the public rng field (u=0, smallest positive, 1-ulp, 0.5, random, plus a bisection over all representable u for the decision boundary); oracle: moved <=> ln u < ratio in F, bitwise state comparison, realised acceptance probability = min(1,exp(ratio)), detailed balance on the realised probabilities. monitor 'shadow': real programs (library Gaussian2D/IsotropicGaussian, asymmetric log-normal random walk, independence sampler, reflecting integer walk, -inf and NaN-region targets); u read from a clone of chain.rng before each step, candidate recorded by a wrapper; predicted state compared bit for bit. A case is distinct by (monitor, types, table shape/flags) or (program, float type, seed) and each observed decision boundary position; non-trivial = at least one step executed and checked.",
        ["the acceptance draw is the next uniform of the chain's public rng field (the property's own anchor); it is read back from a clone, never assumed from the crafted state"],
    ),
}
