"""Per-property configuration of the driver: sharding, watchdogs, environment, evidence texts."""

COMMON_ASSUME = [
    "the harness's f64 reference implementations and closed-form targets are themselves correct (they are cross-checked against finite differences / quadrature where stated)",
    "rustc/LLVM, libm, rand 0.9.2, burn-ndarray 0.18, ndarray 0.16 behave as documented; the release profile of the harness (opt-level 2, debug assertions and overflow checks on) is representative",
    "only executions produced by this run are covered: the listed workload families, sizes and seeds",
]


def P(rule, assumptions, shards=(8, 16), timeout=(900, 7200), env=None):
    e = {"RAYON_NUM_THREADS": "1"}
    if env is not None:
        e = env
    return {"rule": rule, "assumptions": assumptions + COMMON_ASSUME,
            "shards": {"quick": shards[0], "thorough": shards[1]},
            "timeout": {"quick": timeout[0], "thorough": timeout[1]}, "env": e}


PROPS = {
    "C01": P(
        "monitor 'table': random finite state spaces (2..8 states, dyadic log-p/log-q tables with -inf/+inf/NaN entries, state element types f32/f64/i32/usize x float types f32/f64, extra state coordinates holding NaN payloads/-0.0/extremes); for every ordered pair (x,y) the real MHMarkovChain::step is executed with a scripted candidate and an acceptance draw injected through the public rng field (u=0, smallest positive, 1-ulp, 0.5, random, plus a bisection over all representable u for the decision boundary); oracle: moved <=> ln u < ratio in F, bitwise state comparison, realised acceptance probability = min(1,exp(ratio)), detailed balance on the realised probabilities. monitor 'shadow': real programs (library Gaussian2D/IsotropicGaussian, asymmetric log-normal random walk, independence sampler, reflecting integer walk, -inf and NaN-region targets); u read from a clone of chain.rng before each step, candidate recorded by a wrapper; predicted state compared bit for bit. A case is distinct by (monitor, types, table shape/flags) or (program, float type, seed) and each observed decision boundary position; non-trivial = at least one step executed and checked.",
        ["the acceptance draw is the next uniform of the chain's public rng field (the property's own anchor); it is read back from a clone, never assumed from the crafted state"],
    ),
    "C05": P(
        "recording Conditional whose every answer is a globally unique value (call counter encoded in the number, sometimes NaN payloads/subnormals); element types f64/f32/i32, d in 1..64, 1..60 steps; either direct GibbsMarkovChain::step calls or GibbsSampler::run with 1..16 chains under rayon pools of 1/2/3/8/16 threads. History checker: per step the indices asked are exactly {0..d-1}, every `given` equals (bit for bit) the shadow state with all earlier answers of the same step written in, the state after the step equals the shadow, and every collected row of run() equals the swept state. Distinct by (type, d, weird-values flag, steps); non-trivial = at least one full sweep checked.",
        ["the joint-invariance consequence is not re-derived here; C06 checks Gibbs output moments statistically"],
    ),
    "C07": P(
        "configurations (sampler kind in MH with user-seeded proposal / MH with freshly constructed proposal / Gibbs with a state-deterministic conditional / HMC f64 / HMC f32 / NUTS; 1..6 chains; dim 1..4; run lengths; seeds random and {0,1,2^32,u64::MAX-k,u64::MAX}); for each: output bytes of run() compared across repeated construction, a rayon pool of 1/2/3/8/16 threads, 1..3 other samplers (incl. HMC/NUTS and direct draws from burn's process-global generator) running concurrently in other threads, run_progress (NUTS: shifted by one draw) for every 4th case, and seed+1 (must differ when any chain moved). init_with_seed/init_det purity on n in 0..40, d in 0..12. Distinct by configuration and by output hash; non-trivial = outputs compared.",
        ["'same inputs' for MH includes a proposal built by the same constructor expression without an explicit set_seed (the sampler seed is documented to make runs reproducible)",
         "thread interleavings are those the OS scheduler produced during the run (plus Miri/TSan passes in the thorough tier); no schedule enumeration"],
        env={},
    ),
    "C08": P(
        "multi-chain samplers with 2..64 chains all started from one common state, seeded (seeds incl. 0 and values whose per-chain offsets wrap) and unseeded: MH with the library's IsotropicGaussian and with a user-defined seedable proposal exposing its generator (proposal seeded by the user or not), HMC batches, NUTS. Observed: next 4 outputs of clones of chains[i].rng, next proposal from the common state drawn from clones of chains[i].proposal, what the proposal would draw if its generator were a copy of the acceptance generator, and trajectories; oracle: all chain pairs differ in acceptance stream, proposal stream and in state at the first step where either moves; acceptance generator != proposal generator within a chain. Distinct by configuration.",
        ["two generators are 'the same stream' iff their next 4 64-bit outputs coincide"],
    ),
    "C09": P(
        "monitor 'counting': user-defined MarkovChain/HasChains whose state is (transition count, chain id, mixed) for element types f64/i32/f32; n_chains 1..32, dim 1..16, sequences of 1..3 run(n_collect 0..40, n_discard 0..40) calls, rayon pools 1/2/3/5/8/16, optional per-chain sleeps; every cell must identify chain c after n_discard+k+1 transitions since the call, step counters must equal n_collect+n_discard. monitor 'real': MH/Gibbs/HMC seeded twins: run(a,d)+run(b,0) == run(a+b,d) bit for bit == manual stepping, HMC step count from the hook trace; NUTS: multi-chain runner == individually seeded chains, row k == traced state after n_discard+k transitions, transitions == n_collect+n_discard-1. Distinct by (type, n_chains, n_collect, n_discard, dim, threads) resp. sampler configuration.",
        ["seeded twins are bit-reproducible (C07)"],
        env={},
    ),
    "C11": P(
        "monitor 'rhat': generated sample arrays (1..16 chains, 4..5000 draws incl. odd lengths and lengths around the FFT switch, 1..8 parameters; families i.i.d., AR(1) with phi in (-0.9,0.99), trending, bimodal, disagreeing chains, constant and near-constant columns; scale log-uniform 1e-3..1e3, |location|/scale up to 1e3); the reported split R-hat of every parameter is compared with an independent f64 sqrt(var+/W) of the f32-quantised input (either n or n-1 within-variance convention), tolerance = 2e-3 relative + 50x the observed sensitivity to one-ulp input perturbations, plus R-hat >= sqrt((n-1)/n). monitor 'metamorphic': invariance under x->+-2^k x, x->ax+b, chain permutation, replacement of other parameters; growth when one chain is moved 30..3e5 sd away. monitors 'summary'/'runstats': basic_stats on vectors of length 1..64 (with ties, NaN, +-inf) and RunStats::from on arrays with up to 48 parameters some of them constant: min/max exact, median a middle order statistic, mean/sd within tolerance, never a panic. Distinct by array shape/families or by input hash.",
        ["columns whose within-chain spread is below f32 resolution of their location are only checked for 'does not fail'"],
    ),
    "C12": P(
        "monitor 'ess': generated arrays as in C11 (no constant columns), half-chain lengths on both sides of the 100-row switch between brute-force and FFT autocovariance and at powers of two +-1; reported ESS compared with an independent f64 Geyer estimator (direct-sum autocovariance, rho_t = 1-(W-acov_t)/var+, initial positive sequence, monotone clamp, tau=-1+2 sum, M*N/tau). The reference is set-valued: a pair sum within 3e-4 of zero may fall on either side; the reported value must match one reachable value under either within-variance convention (tolerance 4e-3 relative + 100x sensitivity). Coarse sanity bands reported separately (i.i.d.: ESS/MN in [0.7,1.4] for MN>=4000; AR(1): within a factor 2 of MN(1-phi)/(1+phi)). monitor 'metamorphic': affine rescaling, chain permutation, time reversal. Distinct by (chains, draws, params, families).",
        ["pair sums within 3e-4 of zero are treated as undecidable for the f32/FFT implementation"],
    ),
    "C13": P(
        "update sequences of length 2..5000 for 2..16 chains and 1..8 parameters, element types f32/f64/i32/usize, states repeating with probability 0..0.8 (rejections), |mean|/sd up to 30; every ChainTracker is fed step by step: count exact, mean and unbiased variance vs f64 batch statistics (conditioning-aware tolerance), p_accept in [0,1] and equal to the EMA recursion 0.99 p + 0.01 [state != previous] after every update (first value = first indicator, which is unambiguous by construction); collect_rhat of the trackers' stats and MultiChainTracker::rhat/max_rhat on the same draws vs the classical sqrt(var+/W); MultiChainTracker's EMA folded over chains. Distinct by (type, chains, params, length).",
        ["variance tolerance grows with n*eps*(mean^2+var): the trackers hold running f32 means of x and x^2"],
    ),
    "C16": P(
        "weight vectors of length 1..64 (uniform, random, log-uniform, dyadic; zeros at first/last/both ends/interior runs/random positions; magnitudes 1e-30..1e30; f32 and f64): probs sum to one and equal weights/sum, logp(i) = ln p_i, logp(>=len) = -inf incl. usize::MAX, Target<usize> agrees; then the uniform variate is injected through the verif hook Categorical::with_rng with crafted generator states: u = 0, smallest positive, 1-ulp, 1-2ulp, 0.5, every cumulative sum and its 4 neighbours, and a stratified grid of 1024 (thorough 4096) values; oracle: index in range, probs[index] > 0 always, fraction of grid cells mapped to i equals p_i within 2/grid. monitor 'freq': chi-square-style frequency check with ordinary seeds (6.5 sigma per cell). Distinct by probability vector hash.",
        ["sample() consumes exactly one uniform of the distribution's generator (read back from a clone of the crafted state)"],
    ),
    "C18": P(
        "monitor 'shape': (n,d) pairs (quick: seeded subset incl. all borders 0,1,2,255; thorough: the full 256x256 grid) and seeds {0,42,u64::MAX,random}: shape, finiteness, purity (two calls bit-identical), init_det == init_with_seed(42), prefix property against a request with 3 more rows, f32 values == f64 values rounded, two init() calls differ, seed matters. monitor 'dist': pooled entries (>= 2e5 per case) of init_with_seed over random seeds and of OS-seeded init: mean, variance, 4th moment, within-row and between-row lag-1 correlations (|z| <= 6.5) and Kolmogorov-Smirnov against N(0,1) (sqrt(n) D <= 2.6). Distinct by (n,d,seed).",
        ["the distributional part has a bounded false-alarm probability (< 1e-5 per run) by construction of the thresholds"],
    ),
    "C15": P(
        "monitor 'gaussian2d': Gaussian2D<f32|f64> with random means and SPD covariances (condition number up to 1e4, scale 1e-2..1e2) at points up to several sd away: normalised and unnormalised log-density vs closed form, difference = -ln(2 pi) - 1/2 ln|Sigma|. monitor 'targets': DiffableGaussian2D, Rosenbrock2D (batched and single-point), RosenbrockND (dim 2..32) on {f32,f64} scalars x {NdArray<f32>,NdArray<f64>} backends, batch sizes 1..64: log-density row by row and gradients from unnorm_logp_and_grad and from the HMC-style autodiff call on unnorm_logp_batch vs analytic gradients (analytic gradients themselves guarded by central differences). monitor 'isotropic': IsotropicGaussian<f32|f64>, std 1e-3..1e3, dim 1..32: logp(from,to) vs -sum d^2/2s^2 - d/2 ln(2 pi s^2), symmetry, Target form, integral of exp(logp) by trapezoid quadrature in D=1,2, noise mean/variance/KS, set_seed reproducibility. Tolerance = 50x the largest change of the f64 reference under one-ulp perturbations of all inputs + 256 ulp. Distinct by case and type combination.",
        ["tensor-based targets are held to f32-level accuracy on every backend (the statement's own accuracy clause)"],
    ),
    "C17": P(
        "monitor 'shapes': every entry point (save_csv, save_csv_tensor, save_arrow, save_parquet, save_parquet_tensor) with element types f32/f64/i32/usize where the signature accepts them; shapes 0..6 x 0..40 x 0..8 (thorough: exhaustive, 2583 shapes x 5 entry points; quick: 500 seeded shapes biased to borders); values: NaN, +-inf, +-0, subnormals, extremes, random, or cells encoding (i,j,k); file read back with csv::Reader / arrow ipc FileReader / ParquetRecordBatchReader of the same crate versions: documented header/schema, one row per cell in documented order, labels = indices (save_parquet_tensor: observation, chain), values bit-exact after widening (CSV: parsed in the written element type). An Err return is counted, not judged. monitor 'faults': unwritable targets (missing directory, path is a directory, path below a regular file, empty path, /dev/full = ENOSPC on every write) with small and 96k-cell arrays: must be Err, never Ok or panic. Distinct by (entry, type, shape, encoding) and (entry, fault).",
        ["read-only directories are not used as a fault (the checks run as root)"],
    ),
    "C02": P(
        "shadow execution of HMC::step: targets = harness Gaussians (diagonal, dense SPD precision), Student-t, quartic, funnel (each as burn tensor code for the library and closed-form f64 value+gradient for the oracle) and the library's DiffableGaussian2D, Rosenbrock2D, RosenbrockND paired with closed forms; step sizes log-uniform 1e-3..10 (incl. unstable), L in 0..64, 1..32 chains, dim 1..16, (scalar, backend) in {f32,f64} x {NdArray<f32>,NdArray<f64>}, 5 consecutive steps per configuration. Per row the momenta and uniforms recorded by the hook are fed to an f64 velocity-Verlet reference: the new row must equal the old row bit for bit or the L-step endpoint within 50x the reference's sensitivity to 2-4 ulp input perturbations, and which one is dictated by ln u <= H-H' unless that margin is inside the tolerance; NaN energy difference => must stay. Plus: same seed with one row's start perturbed => all other rows bit-identical; verif_leapfrog(x,p) == reference endpoint and verif_leapfrog(x',-p') returns to (x,-p) when the reference round trip amplifies round-off by < 1e4. Distinct by (target, types, n_chains, L, case).",
        ["Student-t (which uses log) is run with batch x dim < 32 because burn-ndarray's backward pass of log uses an approximate SIMD reciprocal for larger tensors (third-party, alignment dependent)",
         "trajectories that leave the backend's floating-point range or amplify round-off by > 1e4 are inconclusive for the numerical comparisons"],
    ),
}
