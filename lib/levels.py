"""Level texts per property for MANIFEST.json."""
NOT_APPLICABLE = {}
LEVELS = {
    "C01": {
        "technique": "runtime monitoring: injected acceptance draws (crafted RNG state) + shadow execution against the MH rule, bitwise state comparison",
        "text": "Every executed MH step is compared with the decision the acceptance rule prescribes for the very draw it consumed; on finite state spaces the draw is injected (incl. u=0 and 1-ulp) and the decision boundary is located by bisection over all representable u, giving the realised acceptance probability and observed detailed balance. Exploration of generated programs/inputs, not a proof.",
        "note": "Trusts that the acceptance draw is the next uniform of the public rng field (read back from a clone), libm's ln being the same function in harness and library, and the harness's own Target/Proposal implementations.",
    },
}
