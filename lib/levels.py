"""Level texts per property for MANIFEST.json."""
NOT_APPLICABLE = {}
LEVELS = {
    "C01": {
        "technique": "runtime monitoring: injected acceptance draws (crafted RNG state) + shadow execution against the MH rule, bitwise state comparison",
        "text": "Every executed MH step is compared with the decision the acceptance rule prescribes for the very draw it consumed; on finite state spaces the draw is injected (incl. u=0 and 1-ulp) and the decision boundary is located by bisection over all representable u, giving the realised acceptance probability and observed detailed balance. Exploration of generated programs/inputs, not a proof.",
        "note": "Trusts that the acceptance draw is the next uniform of the public rng field (read back from a clone), libm's ln being the same function in harness and library, and the harness's own Target/Proposal implementations.",
    },
    "C05": {
        "technique": "runtime monitoring: history checker over the calls received by a recording Conditional with unique answers (unambiguous history)",
        "text": "Every call the library made to the user's conditional during the observed sweeps is checked against the sweep semantics with bitwise state comparison, for generated dimensions, element types, chain counts and thread pools. Exploration, not proof.",
        "note": "Trusts the recording wrapper (plain Vec push) and that answers are unique per chain.",
    },
    "C07": {
        "technique": "runtime monitoring: byte-image equality of outputs across repeated construction, thread-pool sizes, concurrent samplers and progress mode; Miri/TSan passes in the thorough tier",
        "text": "Outputs of identically seeded samplers are compared bit for bit under varied schedules (pool sizes, concurrently running samplers hammering burn's global generator, progress mode) and extreme seeds; different seeds must give different output. Covers the schedules produced in the run.",
        "note": "Depends on the OS scheduler for interleavings; Gibbs only with a state-deterministic conditional.",
    },
    "C08": {
        "technique": "runtime monitoring: invariant check on cloned per-chain generators/proposals (public fields) and on trajectories from a common start",
        "text": "For generated samplers the per-chain acceptance and proposal streams are extracted from clones and compared pairwise, and trajectories from a common start are compared at the first move. Exploration over chain counts, seeds, seeded/unseeded construction.",
        "note": "Stream identity judged on the next 4 outputs; NUTS/HMC judged on trajectories only (generators are private).",
    },
    "C09": {
        "technique": "runtime monitoring: self-identifying counting chains + seeded twins/manual stepping + hook trace of HMC/NUTS transitions",
        "text": "Every cell of every returned array is checked against the transition it must come from, for generated (n_chains, n_collect, n_discard, dim, threads) and sequences of run calls; continuation and manual-stepping equalities are bitwise. Exploration of the grid, not exhaustive in quick.",
        "note": "Real-sampler part relies on C07 determinism; NUTS row semantics read from the NutsEnd hook events.",
    },
    "C11": {
        "technique": "runtime monitoring: reference-model oracle (independent f64 split R-hat) + metamorphic relations + panic capture on generated arrays",
        "text": "Every reported R-hat and summary field is compared with an independent f64 computation on the same f32 input, with tolerances derived from measured input sensitivity; metamorphic relations cover the 'therefore' clauses. Exploration of generated arrays.",
        "note": "Trusts the f64 reference (written from the statement); either within-variance convention accepted.",
    },
    "C12": {
        "technique": "runtime monitoring: set-valued reference-model oracle (f64 Geyer ESS) across both autocovariance paths + metamorphic relations",
        "text": "Reported ESS is compared with the set of values an exact Geyer estimator can reach when near-zero pair sums fall either way, on arrays that straddle the brute-force/FFT switch. Exploration of generated arrays.",
        "note": "Ambiguity threshold 3e-4 on pair sums; sanity bands are coarse by design.",
    },
    "C13": {
        "technique": "runtime monitoring: online checker of the tracker state after every update against batch statistics and the EMA recursion",
        "text": "The trackers are driven with generated update histories and checked after every update (acceptance EMA) and at the end (count/mean/variance/R-hat, three implementations against each other and the classical formula).",
        "note": "Tolerances account for f32 running sums; inputs limited to |mean|/sd <= 30.",
    },
    "C16": {
        "technique": "runtime monitoring with fault/draw injection: crafted generator states choose the uniform variate (incl. exactly 0 and 1-ulp) via the Categorical::with_rng hook",
        "text": "The exact map from uniform variate to category realised by the code is extracted by injection on a stratified grid and at every cumulative-sum boundary; zero-probability categories must never be returned. Exploration of weight vectors; the variates include the extreme representable ones that sampling cannot reach.",
        "note": "Assumes one uniform per sample() call (read back from a clone).",
    },
    "C18": {
        "technique": "runtime monitoring: exact structural checks over the (n,d) grid (exhaustive in thorough) + calibrated statistical monitors",
        "text": "Shape/purity/prefix/rounding are exact checks over the grid; normality and independence are calibrated z/KS tests on pooled draws.",
        "note": "Statistical thresholds sized for < 1e-5 false-alarm probability per run.",
    },
    "C15": {
        "technique": "runtime monitoring: reference-model oracle (closed-form f64 densities/gradients, quadrature) with sensitivity-derived tolerances + calibrated noise tests",
        "text": "Every evaluated density/gradient of the built-in distributions is compared with closed forms on generated parameters, points, batch sizes and type/backend combinations; the proposal density is additionally integrated numerically. Exploration of generated inputs.",
        "note": "Closed forms trusted after their own finite-difference guard; f32-level accuracy demanded of tensor-based targets.",
    },
    "C17": {
        "technique": "runtime monitoring with I/O fault injection: write with the library, read back with the standard readers, bitwise cell comparison; unwritable paths incl. /dev/full",
        "text": "Round-trip oracle over shapes (exhaustive in the thorough tier), element types and hostile values for all five entry points; injected write faults must surface as Err.",
        "note": "Readers of the same crate versions are trusted; fault set limited to what root cannot write.",
    },
    "C02": {
        "technique": "runtime monitoring: shadow execution of every HMC row against an f64 leapfrog/Metropolis reference fed with the draws recorded at the hook; seed scan for rare acceptance draws (u = 0, 2^-24); metamorphic row-independence and reversibility checks",
        "text": "Each observed HMC row update is replayed by an independent integrator with closed-form gradients using exactly the momentum and uniform the step consumed; the decision and the endpoint are compared with sensitivity-derived tolerances. Exploration over targets, step sizes, L, batch shapes and precisions.",
        "note": "Takes the hooked draws as given (their distribution is C06's business); closed-form gradients guarded by a tensor-vs-closed-form self-check (mv SELF).",
    },
    "C03": {
        "technique": "runtime monitoring: trace-driven shadow execution (hook event log replayed by an f64 Algorithm-6 reference consuming the recorded draws) + orbit-membership invariant + direct calls of the private tree functions through hooks",
        "text": "Every observed NUTS transition and every directly built tree is compared with what Algorithm 6 yields for the same momentum, slice level, directions and uniforms; discrete outcomes are compared only when the reference's decisions are robust to 2-4 ulp perturbations, otherwise the weaker orbit-membership invariant decides. Exploration over targets, step sizes (natural and forced), depths 0..12, precisions.",
        "note": "Closed-form gradients (self-checked against the tensor code); post-order consumption of merge uniforms assumed as in Algorithm 6.",
    },
    "C04": {
        "technique": "runtime monitoring: online reference model of the dual-averaging recursion fed with the recorded per-transition statistics; bitwise freeze invariant; positivity/finiteness invariant on NaN-region targets; calibrated statistical band",
        "text": "The step size used by every observed transition is compared with an f64 dual-averaging reference driven by the same statistics, across multi-call histories; the freeze after warm-up is checked bitwise. Exploration over targets, deltas, warm-up lengths and call sequences.",
        "note": "First momentum replicated from the seed (rand's StandardNormal on SmallRng::seed_from_u64); eps0 judged by a post-condition, not by re-running the heuristic.",
    },
    "C14": {
        "technique": "runtime monitoring: invariant check on every returned state against the harness's own copy of hostile targets; panics captured; hangs decided by a logical target-evaluation budget",
        "text": "All three gradient/MH samplers are driven on bounded-support and NaN-region targets with proposals, step sizes and start points chosen to produce hostile candidates (counted in the evidence); every resulting state is classified by an independent f64 copy of the density.",
        "note": "Acceptance draws equal to 0 excluded per the statement; near-boundary states inconclusive.",
    },
    "C10": {
        "technique": "runtime monitoring: offline checker over the sequence-numbered protocol event log + online bounded-progress guards (logical clock), injected delays at protocol events, calls from inside constrained thread pools, twin comparison of draws, receiver-drop fault injection",
        "text": "Each run_progress call is observed through protocol events and checked for exactly-once final messages, worker completion and bounded reporter progress under generated chain counts and speed profiles; draws and diagnostics are compared with run() twins across precisions; receiver faults are injected at three points.",
        "note": "Schedules are produced, not enumerated; the guard bound 2n+8 is far above the <= ceil(n/5)+2 iterations the unchanged code needs.",
    },
    "C06": {
        "technique": "runtime monitoring: calibrated statistical monitors on run() outputs from stationary starts (replicate-based standard errors, closed-form expectations) and on the hooked random draws",
        "text": "The only genuinely distributional property: decided by z/t tests with thresholds sized for a ~1e-9 false-alarm rate per statistic over the four samplers, several target families and both precisions, plus direct distribution tests of every random stream the hooks expose. Detects biases above the stated detection limit only.",
        "note": "Closed-form moments of the harness targets; exact starting draws by Cholesky / inverse CDF from the workload PRNG.",
    },
}
