#!/usr/bin/env python3
"""Regenerates /verif/MANIFEST.json from lib/propcfg.py and lib/levels.py (one source of truth)."""
import json, os, subprocess, sys
sys.path.insert(0, os.path.dirname(os.path.abspath(__file__)))
from propcfg import PROPS
from levels import LEVELS, NOT_APPLICABLE

ALL = [f"C{i:02d}" for i in range(1, 19)]
hooks_commits = subprocess.run(["git", "-C", "/repo", "log", "--format=%H %s"], capture_output=True, text=True).stdout.splitlines()
hook_shas = [l.split()[0] for l in hooks_commits if " verif hooks:" in l]
checks = []
for pid in ALL:
    if pid not in PROPS or pid not in LEVELS:
        continue
    lv = LEVELS[pid]
    checks.append({
        "property_id": pid,
        "quick_cmd": f"./check {pid} --tier quick",
        "thorough_cmd": f"./check {pid} --tier thorough",
        "evidence_file": f"/verif/evidence/{pid}.json",
        "replay_cmd_template": f"./check {pid} --replay {{path}}",
        "engine": "mv-harness",
        "level_claimed": {"category": "exploration", "text": lv["text"], "design_ref": f"DESIGN.md section 3, {pid}"},
        "level_note": lv["note"],
        "technique": lv["technique"],
    })
na = [{"property_id": p, "reason": NOT_APPLICABLE.get(p, "check not built yet in this session; see DESIGN.md section 3 for the planned monitor")}
      for p in ALL if p not in [c["property_id"] for c in checks]]
m = {
    "version": 1,
    "setup_cmd": "cd /verif/harness && CARGO_NET_OFFLINE=true cargo build --release --offline",
    "hooks": {
        "guard": "verif (cargo feature of mini-mcmc, off by default)",
        "enable": "the harness crate /verif/harness path-depends on /repo with features = [\"verif\",\"csv\",\"arrow\",\"parquet\"]; every check starts with cargo build --release --offline of the harness, which rebuilds mini-mcmc from /repo's working tree",
        "baseline_off_cmd": "cd /repo && (cargo nextest run --workspace --no-fail-fast --tool-config-file pb:/w/lib/nextest.toml --profile pb --test-threads 8 --offline || cargo test --workspace --no-fail-fast --offline)",
        "source_commits": list(reversed(hook_shas)),
        "add_only": True,
    },
    "engines": [
        {"name": "mv-harness", "path": "/verif/harness", "serves_properties": [c["property_id"] for c in checks],
         "kind_free_text": "Rust binary `mv` linking the real mini-mcmc (hooks on): workload generators, reference-model monitors, injected draws/faults, history checkers; sharded and supervised by the python driver /verif/check, which also runs the Miri/TSan/ASan passes"},
    ],
    "checks": checks,
    "not_applicable": na,
    "notes": "Runtime monitoring only: every verdict is 'held on the executions listed in the evidence file'. Exit 2 of ./check means harness error / nothing observed (never a verdict). KNOWN_FINDINGS.txt lists fixed defects (fixed: lines suppress nothing).",
}
json.dump(m, open("/verif/MANIFEST.json", "w"), indent=1)
print("wrote MANIFEST.json with", len(checks), "checks;", len(na), "not_applicable")
