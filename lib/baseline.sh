#!/bin/bash
# Runs the repository's pinned test suite with the verif feature OFF and prints the pass/fail summary.
cd /repo
out=$(cargo nextest run --workspace --no-fail-fast --tool-config-file pb:/w/lib/nextest.toml --profile pb --test-threads 8 --offline 2>&1)
rc=$?
echo "$out" | grep -E "Summary|FAIL|failed" | head -20
exit $rc
