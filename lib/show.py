import json,sys
j=json.load(open(sys.argv[1]))
for k in ['evaluations','held','inconclusive','counters','maxima','n_violations','wall_s']: print(k, j[k])
seen={}
for v in j['violations']:
    seen.setdefault(v['sig'],[]).append(v)
for s,vs in seen.items(): print('SIG',s,len(vs), json.dumps(vs[0]['detail'])[:500])
for n in j['notes'][:10]: print('NOTE',n)
