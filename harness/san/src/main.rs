//! Small, sanitizer-friendly workloads (Miri / ThreadSanitizer / AddressSanitizer).
//! Every workload also asserts its functional outcome, so a sanitizer pass is never vacuous.
//!   sanwl <workload> [size]
use mini_mcmc::core::{init_det, init_with_seed, run_chain_progress, ChainRunner, HasChains, MarkovChain};
use mini_mcmc::distributions::{Categorical, Discrete, IsotropicGaussian};
use mini_mcmc::metropolis_hastings::MetropolisHastings;
use mini_mcmc::stats::{basic_stats, collect_rhat, split_rhat_mean_ess, ChainStats, ChainTracker, MultiChainTracker, RunStats};
use ndarray::{Array1, Array3};
use rand::rngs::SmallRng;
use rand::SeedableRng;

#[derive(Clone)]
struct Count {
    state: Vec<f64>,
    id: usize,
    steps: u64,
    yield_every: u64,
}
impl MarkovChain<f64> for Count {
    fn step(&mut self) -> &Vec<f64> {
        self.steps += 1;
        if self.yield_every > 0 && self.steps % self.yield_every == 0 {
            std::thread::yield_now();
        }
        self.state = vec![self.steps as f64, self.id as f64];
        &self.state
    }
    fn current_state(&self) -> &Vec<f64> {
        &self.state
    }
}
struct Sampler {
    chains: Vec<Count>,
}
impl HasChains<f64> for Sampler {
    type Chain = Count;
    fn chains_mut(&mut self) -> &mut Vec<Count> {
        &mut self.chains
    }
}
fn sampler(n: usize, y: u64) -> Sampler {
    Sampler { chains: (0..n).map(|id| Count { state: vec![0.0, id as f64], id, steps: 0, yield_every: y }).collect() }
}
fn check_cells(a: &Array3<f64>, n_chains: usize, n_collect: usize, n_discard: usize) {
    assert_eq!(a.shape(), &[n_chains, n_collect, 2]);
    for c in 0..n_chains {
        for k in 0..n_collect {
            assert_eq!(a[[c, k, 0]], (n_discard + k + 1) as f64);
            assert_eq!(a[[c, k, 1]], c as f64);
        }
    }
}

fn lcg(s: &mut u64) -> f32 {
    *s = s.wrapping_mul(6364136223846793005).wrapping_add(1442695040888963407);
    ((*s >> 40) as f32 / (1u64 << 24) as f32) - 0.5
}

fn main() {
    let args: Vec<String> = std::env::args().collect();
    let wl = args.get(1).map(|s| s.as_str()).unwrap_or("");
    let size: usize = args.get(2).and_then(|s| s.parse().ok()).unwrap_or(1);
    match wl {
        // ChainRunner::run under rayon: disjoint chains, stacked in order
        "runner" => {
            for n in [1usize, 3, 4] {
                let mut s = sampler(n, 2);
                let a = s.run(3 * size, 1).unwrap();
                check_cells(&a, n, 3 * size, 1);
            }
        }
        // the progress protocol: channels, scoped workers, polling reporter thread
        "proto" => {
            for n in [1usize, 2, 6] {
                let mut s = sampler(n, 1);
                let (a, stats) = s.run_progress(4, 1).unwrap();
                check_cells(&a, n, 4, 1);
                let want = RunStats::from(a.view());
                // (the id column is constant => a NaN diagnostic whose sign, and with it the position
                // in the sorted summary, is unspecified in Rust and randomised by Miri: compare means only
                // when they are numbers)
                assert!(stats.rhat.mean == want.rhat.mean || stats.rhat.mean.is_nan() || want.rhat.mean.is_nan());
            }
            // receiver dropped before the worker runs
            let (tx, rx) = std::sync::mpsc::channel::<ChainStats>();
            drop(rx);
            let mut c = Count { state: vec![0.0, 0.0], id: 0, steps: 0, yield_every: 0 };
            let out = run_chain_progress(&mut c, 4, 0, tx).unwrap();
            assert_eq!(out.shape(), &[4, 2]);
        }
        // two samplers running concurrently in one process (seeded MH): outputs must not interact
        "concurrent" => {
            let run = move |seed: u64| {
                let mut mh = MetropolisHastings::new(IsotropicGaussian::<f64>::new(1.0), IsotropicGaussian::<f64>::new(0.7), vec![vec![0.1, 0.2]; 3]).seed(seed);
                mh.run(6 * size, 1).unwrap()
            };
            let base = run(7);
            let hs: Vec<_> = (0..3).map(|i| std::thread::spawn(move || run(7 + (i % 2) as u64))).collect();
            let again = run(7);
            let outs: Vec<_> = hs.into_iter().map(|h| h.join().unwrap()).collect();
            assert_eq!(base, again);
            assert_eq!(outs[0], base);
            assert_eq!(outs[2], base);
            assert_ne!(outs[1], base);
        }
        // diagnostics: negative-stride slicing, both autocovariance paths, summary sort
        "stats" => {
            let mut s = 12345u64;
            for (c, n, p) in [(2usize, 9usize, 2usize), (3, 40, 1), (1, 203 * size.min(2), 2)] {
                let a = Array3::from_shape_fn((c, n, p), |_| lcg(&mut s));
                let (r, e) = split_rhat_mean_ess(a.view());
                assert_eq!(r.len(), p);
                assert_eq!(e.len(), p);
                assert!(r.iter().all(|x| x.is_finite()));
                let rs = RunStats::from(a.view());
                assert!(rs.rhat.max >= rs.rhat.min);
            }
            let v: Vec<f32> = (0..40).map(|i| if i % 7 == 0 { f32::NAN } else { lcg(&mut s) }).collect();
            let b = basic_stats("x", Array1::from(v));
            let _ = b.mean;
        }
        "trackers" => {
            let mut s = 99u64;
            let mut ts: Vec<ChainTracker> = (0..3).map(|_| ChainTracker::new(2, &[0.0f32, 0.0])).collect();
            let mut m = MultiChainTracker::new(3, 2);
            for _ in 0..(20 * size) {
                let mut flat = vec![];
                for t in ts.iter_mut() {
                    let x = [lcg(&mut s), lcg(&mut s)];
                    t.step(&x).unwrap();
                    flat.extend_from_slice(&x);
                }
                m.step(&flat).unwrap();
            }
            let st: Vec<ChainStats> = ts.iter().map(|t| t.stats()).collect();
            let refs: Vec<&ChainStats> = st.iter().collect();
            let a = collect_rhat(&refs);
            let b = m.rhat().unwrap();
            for j in 0..2 {
                assert!((a[j] - b[j]).abs() < 1e-3 * b[j].abs().max(1.0), "{a:?} {b:?}");
            }
            assert!((0.0..=1.0).contains(&m.p_accept));
        }
        "cat" => {
            let mut c = Categorical::<f64>::with_rng(vec![0.0, 1.0, 3.0, 0.0], SmallRng::seed_from_u64(3));
            for _ in 0..(200 * size) {
                let k = c.sample();
                assert!(k == 1 || k == 2);
            }
            assert_eq!(c.logp(9), f64::NEG_INFINITY);
            let a: Vec<Vec<f64>> = init_with_seed(5, 3, 9);
            let b: Vec<Vec<f64>> = init_with_seed(7, 3, 9);
            assert_eq!(a[..], b[..5]);
            let d: Vec<Vec<f32>> = init_det(2, 2);
            assert_eq!(d.len(), 2);
        }
        #[cfg(feature = "io")]
        "io" => {
            use mini_mcmc::io::{arrow::save_arrow, csv::save_csv, parquet::save_parquet};
            let dir = args.get(3).cloned().unwrap_or_else(|| ".".into());
            let mut s = 5u64;
            for shape in [(0usize, 0usize, 0usize), (2, 3, 2), (3, 40 * size.min(4), 5)] {
                let a = Array3::from_shape_fn(shape, |_| lcg(&mut s));
                for (i, r) in [save_csv(&a, &format!("{dir}/a.csv")), save_arrow(&a, &format!("{dir}/a.arrow")), save_parquet(&a, &format!("{dir}/a.parquet"))].into_iter().enumerate() {
                    assert!(r.is_ok(), "writer {i} failed");
                }
                assert!(save_csv(&a, "/dev/full").is_err() || shape.0 == 0);
                assert!(save_parquet(&a, "/dev/full").is_err());
                assert!(save_arrow(&a, "/dev/full").is_err());
            }
        }
        // one tiny HMC run and one tiny NUTS run (autodiff graph, tensor ops, hooks)
        "hmc" => {
            use burn::backend::{Autodiff, NdArray};
            use mini_mcmc::distributions::Rosenbrock2D;
            use mini_mcmc::hmc::HMC;
            type B = Autodiff<NdArray<f32>>;
            let mut s = HMC::<f32, B, Rosenbrock2D<f32>>::new(Rosenbrock2D { a: 1.0, b: 5.0 }, vec![vec![0.1, 0.2], vec![-0.3, 0.4]], 0.05, 2).set_seed(3);
            let a = s.run(2 * size, 1);
            assert_eq!(a.dims(), [2, 2 * size, 2]);
            // (no bitwise comparison of two seeded runs here: Miri perturbs the results of powf/exp/ln
            // within their specified accuracy on purpose; C07 checks reproducibility natively)
            assert!(a.to_data().to_vec::<f32>().unwrap().iter().all(|x| x.is_finite()));
        }
        "nuts" => {
            use burn::backend::{Autodiff, NdArray};
            use mini_mcmc::distributions::Rosenbrock2D;
            use mini_mcmc::nuts::NUTSChain;
            type B = Autodiff<NdArray<f32>>;
            let mut c = NUTSChain::<f32, B, Rosenbrock2D<f32>>::new(Rosenbrock2D { a: 1.0, b: 5.0 }, vec![0.1, 0.2], 0.8).set_seed(5);
            let a = c.run(2 + size, 1);
            assert_eq!(a.dims(), [2 + size, 2]);
            assert!(a.to_data().to_vec::<f32>().unwrap().iter().all(|x| x.is_finite()));
        }
        _ => {
            eprintln!("unknown workload {wl}");
            std::process::exit(2);
        }
    }
    println!("SANWL-OK {wl}");
}
