//! Shared plumbing: workload PRNG, per-shard report, panic capture, numeric helpers.

use serde_json::{json, Map, Value};
use std::collections::{BTreeMap, HashSet};
use std::panic::{catch_unwind, AssertUnwindSafe};

/// SplitMix64: the workload generator. Independent of the `rand` crate on purpose, so that the
/// workloads do not change when the library's dependencies do.
#[derive(Clone, Debug)]
pub struct Sm64(pub u64);

impl Sm64 {
    pub fn new(seed: u64) -> Self {
        Sm64(seed)
    }
    /// Generator for one case: a hash of (seed, property, shard, case index).
    pub fn for_case(seed: u64, prop: &str, stream: u64, case: u64) -> Self {
        let mut h = Sm64(seed ^ 0x9E37_79B9_7F4A_7C15);
        let mut x = h.next_u64();
        for b in prop.bytes() {
            x = (x ^ b as u64).wrapping_mul(0x1000_0000_01B3);
        }
        let mut g = Sm64(x ^ stream.wrapping_mul(0xD6E8_FEB8_6659_FD93));
        let y = g.next_u64();
        let mut g2 = Sm64(y ^ case.wrapping_mul(0xA076_1D64_78BD_642F));
        g2.next_u64();
        g2
    }
    pub fn next_u64(&mut self) -> u64 {
        self.0 = self.0.wrapping_add(0x9E37_79B9_7F4A_7C15);
        let mut z = self.0;
        z = (z ^ (z >> 30)).wrapping_mul(0xBF58_476D_1CE4_E5B9);
        z = (z ^ (z >> 27)).wrapping_mul(0x94D0_49BB_1331_11EB);
        z ^ (z >> 31)
    }
    /// Uniform in [0,1).
    pub fn f64(&mut self) -> f64 {
        (self.next_u64() >> 11) as f64 * (1.0 / (1u64 << 53) as f64)
    }
    /// Uniform in (0,1).
    pub fn f64_open(&mut self) -> f64 {
        ((self.next_u64() >> 11) as f64 + 0.5) * (1.0 / (1u64 << 53) as f64)
    }
    /// Uniform integer in [lo, hi] (inclusive).
    pub fn range(&mut self, lo: usize, hi: usize) -> usize {
        assert!(hi >= lo);
        lo + (self.next_u64() % ((hi - lo) as u64 + 1)) as usize
    }
    pub fn below(&mut self, n: usize) -> usize {
        (self.next_u64() % n as u64) as usize
    }
    pub fn bool(&mut self) -> bool {
        self.next_u64() & 1 == 1
    }
    pub fn chance(&mut self, p: f64) -> bool {
        self.f64() < p
    }
    pub fn uniform(&mut self, lo: f64, hi: f64) -> f64 {
        lo + (hi - lo) * self.f64()
    }
    pub fn log_uniform(&mut self, lo: f64, hi: f64) -> f64 {
        (lo.ln() + (hi.ln() - lo.ln()) * self.f64()).exp()
    }
    /// Standard normal (Box–Muller).
    pub fn normal(&mut self) -> f64 {
        let u1 = self.f64_open();
        let u2 = self.f64();
        (-2.0 * u1.ln()).sqrt() * (2.0 * std::f64::consts::PI * u2).cos()
    }
    pub fn choose<'a, T>(&mut self, xs: &'a [T]) -> &'a T {
        &xs[self.below(xs.len())]
    }
    pub fn shuffle<T>(&mut self, xs: &mut [T]) {
        for i in (1..xs.len()).rev() {
            let j = self.below(i + 1);
            xs.swap(i, j);
        }
    }
}

/// Command-line context of one shard.
#[derive(Clone, Debug)]
pub struct Ctx {
    pub prop: String,
    pub thorough: bool,
    pub seed: u64,
    pub shard: u64,
    pub nshards: u64,
    /// Replay: run exactly this (monitor, case) and nothing else.
    pub only: Option<(String, u64)>,
    /// Scale factor on the number of cases (testing the harness itself).
    pub scale: f64,
    pub scratch: String,
}

impl Ctx {
    /// Number of cases this shard runs for a monitor whose tier sizes are (quick, thorough) in total.
    pub fn cases(&self, quick: u64, thorough: u64) -> u64 {
        let total = if self.thorough { thorough } else { quick };
        let total = ((total as f64) * self.scale).ceil().max(1.0) as u64;
        let per = total / self.nshards;
        let extra = if self.shard < total % self.nshards { 1 } else { 0 };
        per + extra
    }
    /// Iterate the case indices this shard owns for `monitor`; in replay mode only the requested one.
    pub fn case_ids(&self, monitor: &str, quick: u64, thorough: u64) -> Vec<u64> {
        if let Some((m, c)) = &self.only {
            if m == monitor {
                return vec![*c];
            }
            return vec![];
        }
        let total = if self.thorough { thorough } else { quick };
        let total = ((total as f64) * self.scale).ceil().max(1.0) as u64;
        (0..total).filter(|c| c % self.nshards == self.shard).collect()
    }
    pub fn rng(&self, monitor: &str, case: u64) -> Sm64 {
        let mut h = 0u64;
        for b in monitor.bytes() {
            h = (h ^ b as u64).wrapping_mul(0x1000_0000_01B3).rotate_left(7);
        }
        Sm64::for_case(self.seed, &self.prop, h, case)
    }
}

/// What one shard observed.
pub struct Report {
    pub prop: String,
    pub evaluations: u64,
    pub held: u64,
    pub inconclusive: BTreeMap<String, u64>,
    pub counters: BTreeMap<String, u64>,
    pub maxima: BTreeMap<String, f64>,
    pub violations: Vec<Value>,
    pub n_violations: u64,
    pub samples: Vec<Value>,
    pub notes: Vec<String>,
    distinct: HashSet<u64>,
    named: BTreeMap<String, HashSet<u64>>,
    sample_cap: usize,
}

impl Report {
    pub fn new(prop: &str) -> Self {
        Report {
            prop: prop.to_string(),
            evaluations: 0,
            held: 0,
            inconclusive: BTreeMap::new(),
            counters: BTreeMap::new(),
            maxima: BTreeMap::new(),
            violations: vec![],
            n_violations: 0,
            samples: vec![],
            notes: vec![],
            distinct: HashSet::new(),
            named: BTreeMap::new(),
            sample_cap: 6,
        }
    }
    /// One execution of real code was observed.
    pub fn eval(&mut self) {
        self.evaluations += 1;
    }
    pub fn evals(&mut self, n: u64) {
        self.evaluations += n;
    }
    pub fn held(&mut self) {
        self.held += 1;
    }
    pub fn helds(&mut self, n: u64) {
        self.held += n;
    }
    pub fn inconclusive(&mut self, reason: &str) {
        *self.inconclusive.entry(reason.to_string()).or_insert(0) += 1;
    }
    pub fn count(&mut self, name: &str) {
        *self.counters.entry(name.to_string()).or_insert(0) += 1;
    }
    pub fn count_n(&mut self, name: &str, n: u64) {
        *self.counters.entry(name.to_string()).or_insert(0) += n;
    }
    pub fn max(&mut self, name: &str, v: f64) {
        let e = self.maxima.entry(name.to_string()).or_insert(f64::NEG_INFINITY);
        if v > *e || e.is_nan() {
            *e = v;
        }
    }
    /// Registers a distinct non-trivial case by a hashable key.
    pub fn distinct<K: std::hash::Hash>(&mut self, key: K) {
        use std::hash::Hasher;
        let mut h = std::collections::hash_map::DefaultHasher::new();
        key.hash(&mut h);
        self.distinct.insert(h.finish());
    }
    /// Registers a key in a named set whose size is reported as "distinct <name> observed"
    /// (completion orders, output hashes, direction sequences, ...).
    pub fn distinct_in<K: std::hash::Hash>(&mut self, name: &str, key: K) {
        use std::hash::Hasher;
        let mut h = std::collections::hash_map::DefaultHasher::new();
        key.hash(&mut h);
        let set = self.named.entry(name.to_string()).or_default();
        if set.len() < 200_000 {
            set.insert(h.finish());
        }
    }
    pub fn sample(&mut self, v: Value) {
        if self.samples.len() < self.sample_cap {
            self.samples.push(v);
        }
    }
    /// `sig` identifies the failing call site / input class (used to match known findings);
    /// `monitor` and `case` make the witness replayable.
    pub fn violation(&mut self, sig: &str, monitor: &str, case: u64, detail: Value) {
        self.n_violations += 1;
        let same = self.violations.iter().filter(|v| v["sig"] == sig).count();
        if self.violations.len() < 80 && same < 4 {
            self.violations.push(json!({
                "sig": sig, "monitor": monitor, "case": case, "detail": detail
            }));
        }
    }
    pub fn note(&mut self, s: String) {
        if self.notes.len() < 50 {
            self.notes.push(s);
        }
    }
    pub fn to_json(&self) -> Value {
        let mut m = Map::new();
        m.insert("property".into(), json!(self.prop));
        m.insert("evaluations".into(), json!(self.evaluations));
        m.insert("held".into(), json!(self.held));
        m.insert("inconclusive".into(), json!(self.inconclusive));
        m.insert("counters".into(), json!(self.counters));
        m.insert(
            "maxima".into(),
            Value::Object(
                self.maxima
                    .iter()
                    .map(|(k, v)| (k.clone(), fj(*v)))
                    .collect(),
            ),
        );
        m.insert("n_violations".into(), json!(self.n_violations));
        m.insert("violations".into(), json!(self.violations));
        m.insert("samples".into(), json!(self.samples));
        m.insert("notes".into(), json!(self.notes));
        let mut d: Vec<u64> = self.distinct.iter().cloned().collect();
        d.sort();
        // hashes are shipped so the driver can count distinct cases across shards
        m.insert(
            "distinct_hashes".into(),
            json!(d.iter().map(|x| format!("{x:016x}")).collect::<Vec<_>>()),
        );
        m.insert(
            "distinct_sets".into(),
            Value::Object(
                self.named
                    .iter()
                    .map(|(k, v)| (k.clone(), json!(v.iter().map(|x| format!("{x:016x}")).collect::<Vec<_>>())))
                    .collect(),
            ),
        );
        Value::Object(m)
    }
}

/// f64 → JSON (non-finite values as strings, so the file stays valid JSON).
pub fn fj(x: f64) -> Value {
    if x.is_finite() {
        json!(x)
    } else {
        json!(format!("{x}"))
    }
}
pub fn fjv(xs: &[f64]) -> Value {
    Value::Array(xs.iter().map(|x| fj(*x)).collect())
}

/// Runs `f`, turning a panic into `Err(message)`.
pub fn guard<T, F: FnOnce() -> T>(f: F) -> Result<T, String> {
    match catch_unwind(AssertUnwindSafe(f)) {
        Ok(v) => Ok(v),
        Err(e) => {
            let msg = if let Some(s) = e.downcast_ref::<&str>() {
                s.to_string()
            } else if let Some(s) = e.downcast_ref::<String>() {
                s.clone()
            } else {
                "non-string panic payload".to_string()
            };
            Err(msg)
        }
    }
}

/// Silences the default panic message (panics are caught and reported with their input).
pub fn quiet_panics() {
    std::panic::set_hook(Box::new(|info| {
        if std::env::var("VERIF_SHOW_PANICS").is_ok() {
            eprintln!("[caught panic] {info}");
        }
    }));
}

/// Bit image of a state element, for "unchanged bit for bit" comparisons.
pub trait Bits: Copy {
    fn bits(&self) -> u64;
    fn as_f64(&self) -> f64;
}
impl Bits for f32 {
    fn bits(&self) -> u64 {
        self.to_bits() as u64
    }
    fn as_f64(&self) -> f64 {
        *self as f64
    }
}
impl Bits for f64 {
    fn bits(&self) -> u64 {
        self.to_bits()
    }
    fn as_f64(&self) -> f64 {
        *self
    }
}
impl Bits for i32 {
    fn bits(&self) -> u64 {
        *self as u32 as u64
    }
    fn as_f64(&self) -> f64 {
        *self as f64
    }
}
impl Bits for usize {
    fn bits(&self) -> u64 {
        *self as u64
    }
    fn as_f64(&self) -> f64 {
        *self as f64
    }
}
impl Bits for i64 {
    fn bits(&self) -> u64 {
        *self as u64
    }
    fn as_f64(&self) -> f64 {
        *self as f64
    }
}

pub fn bits_eq<S: Bits>(a: &[S], b: &[S]) -> bool {
    a.len() == b.len() && a.iter().zip(b).all(|(x, y)| x.bits() == y.bits())
}
pub fn bits_vec<S: Bits>(a: &[S]) -> Vec<u64> {
    a.iter().map(|x| x.bits()).collect()
}
pub fn f64_vec<S: Bits>(a: &[S]) -> Vec<f64> {
    a.iter().map(|x| x.as_f64()).collect()
}

/// FNV-style hash of a byte image (output fingerprints).
pub fn hash_bytes(bytes: &[u8]) -> u64 {
    let mut h = 0xcbf2_9ce4_8422_2325u64;
    for b in bytes {
        h = (h ^ *b as u64).wrapping_mul(0x1000_0000_01B3);
    }
    h
}
pub fn hash_u64s(xs: &[u64]) -> u64 {
    let mut h = 0xcbf2_9ce4_8422_2325u64;
    for x in xs {
        for b in x.to_le_bytes() {
            h = (h ^ b as u64).wrapping_mul(0x1000_0000_01B3);
        }
    }
    h
}

/// |a-b| <= abs + rel*max(|a|,|b|), with NaN == NaN and equal infinities accepted.
pub fn close(a: f64, b: f64, rel: f64, abs: f64) -> bool {
    if a.is_nan() || b.is_nan() {
        return a.is_nan() && b.is_nan();
    }
    if a == b {
        return true;
    }
    if a.is_infinite() || b.is_infinite() {
        return false;
    }
    (a - b).abs() <= abs + rel * a.abs().max(b.abs())
}

/// Kolmogorov–Smirnov statistic of `xs` against a CDF; returns sqrt(n)*D.
pub fn ks_stat<F: Fn(f64) -> f64>(xs: &mut [f64], cdf: F) -> f64 {
    xs.sort_by(|a, b| a.partial_cmp(b).unwrap());
    let n = xs.len() as f64;
    let mut d: f64 = 0.0;
    for (i, x) in xs.iter().enumerate() {
        let f = cdf(*x);
        d = d.max((f - i as f64 / n).abs()).max(((i + 1) as f64 / n - f).abs());
    }
    d * n.sqrt()
}

/// Standard normal CDF.
pub fn phi(x: f64) -> f64 {
    0.5 * erfc(-x / std::f64::consts::SQRT_2)
}

/// Complementary error function (W. J. Cody style rational approximation, |err| < 1.2e-7 is not
/// enough for KS on 1e6 points, so use a series/continued-fraction pair good to ~1e-15).
pub fn erfc(x: f64) -> f64 {
    if x < 0.0 {
        return 2.0 - erfc(-x);
    }
    if x < 2.5 {
        // Maclaurin series of erf
        let mut sum = x;
        let mut term = x;
        let x2 = x * x;
        let mut n = 0.0;
        loop {
            n += 1.0;
            term *= -x2 / n;
            let add = term / (2.0 * n + 1.0);
            sum += add;
            if add.abs() < 1e-17 * sum.abs() {
                break;
            }
            if n > 200.0 {
                break;
            }
        }
        1.0 - 2.0 / std::f64::consts::PI.sqrt() * sum
    } else {
        // continued fraction (Lentz) for erfc
        let mut f = 0.0;
        for k in (1..=80).rev() {
            f = (k as f64) * 0.5 / (x + f);
        }
        (-x * x).exp() / std::f64::consts::PI.sqrt() / (x + f)
    }
}

/// Mean and unbiased variance.
pub fn mean_var(xs: &[f64]) -> (f64, f64) {
    let n = xs.len() as f64;
    let m = xs.iter().sum::<f64>() / n;
    let v = xs.iter().map(|x| (x - m) * (x - m)).sum::<f64>() / (n - 1.0);
    (m, v)
}
