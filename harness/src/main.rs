#![allow(dead_code, unused_variables, unused_imports, unused_mut, clippy::too_many_arguments, clippy::type_complexity, clippy::needless_range_loop)]
//! `mv <property> [--tier quick|thorough] [--seed N] [--shard i --nshards n] [--out file]
//!     [--only monitor:case] [--scale f]` — runs one shard of one property's workload against the
//! real library and writes what the monitors observed as JSON.

mod props;
mod refhmc;
mod refstats;
mod rngcraft;
mod targets;
mod util;

use util::{Ctx, Report};

fn main() {
    let args: Vec<String> = std::env::args().collect();
    if args.len() < 2 {
        eprintln!("usage: mv <property> [options]");
        std::process::exit(2);
    }
    let prop = args[1].to_uppercase();
    let mut ctx = Ctx {
        prop: prop.clone(),
        thorough: false,
        seed: 1,
        shard: 0,
        nshards: 1,
        only: None,
        scale: 1.0,
        scratch: String::from("/verif/harness/target/scratch"),
    };
    let mut out: Option<String> = None;
    let mut i = 2;
    while i < args.len() {
        let a = args[i].as_str();
        let v = args.get(i + 1).cloned().unwrap_or_default();
        match a {
            "--tier" => ctx.thorough = v == "thorough",
            "--seed" => ctx.seed = v.parse().expect("seed"),
            "--shard" => ctx.shard = v.parse().expect("shard"),
            "--nshards" => ctx.nshards = v.parse().expect("nshards"),
            "--out" => out = Some(v.clone()),
            "--scale" => ctx.scale = v.parse().expect("scale"),
            "--scratch" => ctx.scratch = v.clone(),
            "--only" => {
                let (m, c) = v.split_once(':').expect("--only monitor:case");
                ctx.only = Some((m.to_string(), c.parse().expect("case")));
            }
            _ => {
                eprintln!("unknown option {a}");
                std::process::exit(2);
            }
        }
        i += 2;
    }
    util::quiet_panics();
    let mut rep = Report::new(&prop);
    let t0 = std::time::Instant::now();
    if !props::dispatch(&ctx, &mut rep) {
        eprintln!("unknown property {prop}");
        std::process::exit(2);
    }
    let mut j = rep.to_json();
    j["wall_s"] = serde_json::json!(t0.elapsed().as_secs_f64());
    j["shard"] = serde_json::json!(ctx.shard);
    let s = serde_json::to_string(&j).unwrap();
    match out {
        Some(p) => std::fs::write(&p, s).expect("write report"),
        None => println!("{s}"),
    }
}
