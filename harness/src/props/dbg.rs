use crate::targets::*;
use crate::util::*;
use burn::backend::{Autodiff, NdArray};
use burn::prelude::*;
use mini_mcmc::distributions::BatchedGradientTarget;
type B32 = Autodiff<NdArray<f32>>;

pub fn run(ctx: &Ctx, rep: &mut Report) {
    let mut g = ctx.rng("dbg", 0);
    let (n, d) = (32usize, 12usize);
    let t = StudentT { d, nu: 2.13820637710654 };
    let a: Vec<f64> = (0..n * d).map(|_| g.normal() * 1.5).collect();
    let mut b = a.clone();
    for k in 0..d {
        b[k] += 0.37;
    }
    let f = |v: &Vec<f64>| {
        let pos = vt2::<B32>(v, n, d).require_grad();
        let lp = BatchedGradientTarget::<f32, B32>::unnorm_logp_batch(&t, pos.clone());
        let gr = pos.grad(&lp.backward()).unwrap();
        (tv(&lp), gr.to_data().iter::<f64>().collect::<Vec<f64>>())
    };
    let (la, ga) = f(&a);
    let (lb, gb) = f(&b);
    for r in 1..n {
        if la[r].to_bits() != lb[r].to_bits() {
            println!("logp row {r} differs {} {}", la[r], lb[r]);
        }
        for k in 0..d {
            if ga[r * d + k].to_bits() != gb[r * d + k].to_bits() {
                println!("grad row {r} k {k} differs {} {}", ga[r * d + k], gb[r * d + k]);
            }
        }
    }
    // op by op
    let xa = vt2::<B32>(&a, n, d);
    let xb = vt2::<B32>(&b, n, d);
    let sa = tv(&(xa.clone() * xa.clone()).sum_dim(1));
    let sb = tv(&(xb.clone() * xb.clone()).sum_dim(1));
    for r in 1..n {
        if sa[r].to_bits() != sb[r].to_bits() {
            println!("sum_dim row {r} differs");
        }
    }
    {
        use mini_mcmc::hmc::HMC;
        use mini_mcmc::verif as hook;
        let ia: Vec<Vec<f32>> = a.chunks(d).map(|r| r.iter().map(|x| *x as f32).collect()).collect();
        let ib: Vec<Vec<f32>> = b.chunks(d).map(|r| r.iter().map(|x| *x as f32).collect()).collect();
        let mut sa = HMC::<f32, B32, StudentT>::new(t.clone(), ia, 1.0972888, 2).set_seed(99);
        let mut sb = HMC::<f32, B32, StudentT>::new(t.clone(), ib, 1.0972888, 2).set_seed(99);
        for step in 0..3 {
            hook::enable();
            sa.step();
            let ea = hook::take();
            sb.step();
            let eb = hook::take();
            hook::disable();
            let (pa, pb) = (tv(&sa.positions), tv(&sb.positions));
            {
                let f2 = |pos: Tensor<B32, 2>| {
                    let pos = pos.detach().require_grad();
                    let lp = BatchedGradientTarget::<f32, B32>::unnorm_logp_batch(&t, pos.clone());
                    let gr = pos.grad(&lp.backward()).unwrap();
                    gr.to_data().iter::<f64>().collect::<Vec<f64>>()
                };
                let (g1, g2) = (f2(sa.positions.clone()), f2(sb.positions.clone()));
                let (h1, h2) = (f2(vt2::<B32>(&pa, n, d)), f2(vt2::<B32>(&pb, n, d)));
                for r in 1..n {
                    let same_in = (0..d).all(|k| pa[r * d + k].to_bits() == pb[r * d + k].to_bits());
                    let same_g = (0..d).all(|k| g1[r * d + k].to_bits() == g2[r * d + k].to_bits());
                    let same_h = (0..d).all(|k| h1[r * d + k].to_bits() == h2[r * d + k].to_bits());
                    let g_eq_h = (0..d).all(|k| g1[r * d + k].to_bits() == h1[r * d + k].to_bits());
                    if same_in && (!same_g || !same_h || !g_eq_h) {
                        println!("  after step {step} row {r}: same input, grad from sampler tensor same={same_g}, from fresh tensor same={same_h}, sampler-vs-fresh same={g_eq_h}  e.g. {} {} {}", g1[r*d], g2[r*d], h1[r*d]);
                    }
                }
            }
            if let (hook::Event::HmcStep { momenta: ma, uniforms: ua, logp_before: lba, logp_after: laa, .. }, hook::Event::HmcStep { momenta: mb, uniforms: ub, logp_before: lbb, logp_after: lab, .. }) = (&ea[0], &eb[0]) {
                println!("step {step}: momenta equal {} uniforms equal {}", ma == mb, ua == ub);
                for r in 1..n {
                    let same_pos = (0..d).all(|k| pa[r * d + k].to_bits() == pb[r * d + k].to_bits());
                    if !same_pos || lba[r].to_bits() != lbb[r].to_bits() || laa[r].to_bits() != lab[r].to_bits() {
                        println!("  row {r}: pos_same={same_pos} logp_before {} {} logp_after {} {}", lba[r], lbb[r], laa[r], lab[r]);
                    }
                }
            }
        }
    }
    {
        use rand::rngs::SmallRng;
        use rand::{RngCore, SeedableRng};
        let mut seen = std::collections::HashSet::new();
        let mut dup = 0;
        for _ in 0..2_000_000 {
            let mut r = SmallRng::from_os_rng();
            if !seen.insert(r.next_u64()) {
                dup += 1;
            }
        }
        println!("from_os_rng duplicates among 2e6 first outputs: {dup}");
    }
    println!("done");
    rep.eval();
}
