//! C01 — one Metropolis–Hastings step obeys the acceptance rule (and hence detailed balance).
//!
//! Monitor `table`: finite state spaces, scripted proposal, *injected* acceptance draw
//! (crafted generator state in the public field `chain.rng`), decision boundary by bisection.
//! Monitor `shadow`: real programs; the draw is read from a clone of `chain.rng` before the step,
//! the candidate from a recording proposal wrapper; prediction compared bit for bit.

use crate::rngcraft::CraftFloat;
use crate::util::*;
use mini_mcmc::core::MarkovChain;
use mini_mcmc::distributions::{Gaussian2D, IsotropicGaussian, Proposal, Target};
use mini_mcmc::metropolis_hastings::MHMarkovChain;
use num_traits::Float;
use rand::rngs::SmallRng;
use rand::{Rng, SeedableRng};
use rand_distr::{Distribution, StandardNormal, StandardUniform};
use serde_json::json;
use std::fmt::Debug;

pub trait Fl: Float + CraftFloat + Bits + Debug + Send + Sync + 'static {
    const NAME: &'static str;
    fn eps() -> f64;
    fn of(x: f64) -> Self;
}
impl Fl for f32 {
    const NAME: &'static str = "f32";
    fn eps() -> f64 {
        f32::EPSILON as f64
    }
    fn of(x: f64) -> f32 {
        x as f32
    }
}
impl Fl for f64 {
    const NAME: &'static str = "f64";
    fn eps() -> f64 {
        f64::EPSILON
    }
    fn of(x: f64) -> f64 {
        x
    }
}

/// State element types of the finite-state monitor.
pub trait StateElem:
    Bits + Clone + PartialEq + num_traits::Zero + Debug + Send + Sync + 'static
{
    const NAME: &'static str;
    fn from_index(i: usize) -> Self;
    fn to_index(&self) -> usize;
    /// payload values for the extra coordinates (NaN payloads, -0.0, extremes)
    fn weird(k: u64) -> Self;
}
impl StateElem for f32 {
    const NAME: &'static str = "f32";
    // index 0 is +0.0 and index 1 is -0.0: two states that compare equal with `==` and differ only
    // in the sign bit (the statement is about states "bit for bit"); 2, 3 are +1, -1 and so on
    fn from_index(i: usize) -> f32 {
        let m = (i / 2) as f32;
        if i % 2 == 1 { -m } else { m }
    }
    fn to_index(&self) -> usize {
        2 * (self.abs() as usize) + self.is_sign_negative() as usize
    }
    fn weird(k: u64) -> f32 {
        match k % 6 {
            0 => f32::from_bits(0x7fc0_0000 | (k as u32 & 0x3f_ffff)),
            1 => -0.0,
            2 => f32::MIN_POSITIVE / 4.0,
            3 => f32::MAX,
            4 => f32::NEG_INFINITY,
            _ => (k as f32) * 0.37 - 3.0,
        }
    }
}
impl StateElem for f64 {
    const NAME: &'static str = "f64";
    // index 0 is +0.0 and index 1 is -0.0: two states that compare equal with `==` and differ only
    // in the sign bit (the statement is about states "bit for bit"); 2, 3 are +1, -1 and so on
    fn from_index(i: usize) -> f64 {
        let m = (i / 2) as f64;
        if i % 2 == 1 { -m } else { m }
    }
    fn to_index(&self) -> usize {
        2 * (self.abs() as usize) + self.is_sign_negative() as usize
    }
    fn weird(k: u64) -> f64 {
        match k % 6 {
            0 => f64::from_bits(0x7ff8_0000_0000_0000 | (k & 0xffff_ffff)),
            1 => -0.0,
            2 => f64::MIN_POSITIVE / 4.0,
            3 => f64::MAX,
            4 => f64::NEG_INFINITY,
            _ => (k as f64) * 0.37 - 3.0,
        }
    }
}
impl StateElem for i32 {
    const NAME: &'static str = "i32";
    fn from_index(i: usize) -> i32 {
        i as i32
    }
    fn to_index(&self) -> usize {
        *self as usize
    }
    fn weird(k: u64) -> i32 {
        match k % 4 {
            0 => i32::MIN,
            1 => i32::MAX,
            2 => -1,
            _ => k as i32,
        }
    }
}
impl StateElem for usize {
    const NAME: &'static str = "usize";
    fn from_index(i: usize) -> usize {
        i
    }
    fn to_index(&self) -> usize {
        *self
    }
    fn weird(k: u64) -> usize {
        match k % 3 {
            0 => usize::MAX,
            1 => 0,
            _ => k as usize,
        }
    }
}

#[derive(Clone, Debug)]
struct TableTarget<F> {
    lp: Vec<F>,
}
impl<S: StateElem, F: Float> Target<S, F> for TableTarget<F> {
    fn unnorm_logp(&self, position: &[S]) -> F {
        self.lp[position[0].to_index()]
    }
}

#[derive(Clone, Debug)]
struct ScriptProposal<S, F> {
    states: Vec<Vec<S>>,
    lq: Vec<Vec<F>>,
    next: usize,
    calls_this_step: usize,
}
impl<S: StateElem, F: Float> Proposal<S, F> for ScriptProposal<S, F> {
    fn sample(&mut self, _current: &[S]) -> Vec<S> {
        // the scripted candidate on the first call of a step; were the step to ask again, it gets
        // a different state (so a "retry" cannot hide behind drawing the same candidate twice)
        self.calls_this_step += 1;
        if self.calls_this_step == 1 {
            self.states[self.next].clone()
        } else {
            self.states[(self.next + self.calls_this_step - 1) % self.states.len()].clone()
        }
    }
    fn logp(&self, from: &[S], to: &[S]) -> F {
        self.lq[from[0].to_index()][to[0].to_index()]
    }
    fn set_seed(self, _seed: u64) -> Self {
        self
    }
}

fn table_entry<F: Fl>(g: &mut Sm64, specials: bool) -> F {
    if specials {
        let r = g.f64();
        if r < 0.15 {
            return F::neg_infinity();
        } else if r < 0.18 {
            return F::infinity();
        } else if r < 0.21 {
            return F::nan();
        }
    }
    // dyadic rationals: every sum of four of them is exact in f32 and f64. Mostly m/8 with
    // |value| <= 8; sometimes large magnitudes, so that ratios reach beyond the range where
    // exp() under/overflows (a rule evaluated in probability space then differs at u = 0)
    if specials && g.chance(0.08) {
        let big = *g.choose(&[16.0, 64.0, 128.0, 512.0, 1024.0]);
        return F::of(if g.bool() { big } else { -big });
    }
    let m = g.range(0, 128) as f64 - 64.0;
    F::of(m / 8.0)
}

/// The decision the statement prescribes, plus robustness information.
struct Decision {
    accept: bool,
    /// false if a different association of the four-term sum would decide differently, or the
    /// comparison is within rounding distance (then only membership checks apply)
    firm: bool,
    class: &'static str,
    ratio: f64,
}

fn decide<F: Fl>(lp_x: F, lp_y: F, q_xy: F, q_yx: F, u: F) -> Decision {
    let r1 = (lp_y + q_yx) - (lp_x + q_xy);
    let r2 = (lp_y - lp_x) + (q_yx - q_xy);
    let r3 = lp_y + q_yx - lp_x - q_xy;
    let lu = u.ln();
    let d1 = lu < r1;
    let d2 = lu < r2;
    let d3 = lu < r3;
    let mut firm = d1 == d2 && d2 == d3;
    let r = r1.to_f64().unwrap();
    let l = lu.to_f64().unwrap();
    if r.is_finite() && l.is_finite() {
        let scale = r.abs().max(l.abs()).max(1e-30);
        if (l - r).abs() <= 4.0 * F::eps() * scale {
            firm = false;
        }
    }
    let class = if r.is_nan() {
        "ratio_nan"
    } else if r == f64::NEG_INFINITY {
        "ratio_neg_inf"
    } else if r == f64::INFINITY {
        "ratio_pos_inf"
    } else if d1 && r >= 0.0 {
        "accept_ratio_ge0"
    } else if d1 {
        "accept_ratio_lt0"
    } else {
        "reject_finite"
    };
    Decision {
        accept: d1,
        firm,
        class,
        ratio: r,
    }
}

fn table_case<S: StateElem, F: Fl>(ctx: &Ctx, rep: &mut Report, case: u64, g: &mut Sm64)
where
    StandardUniform: Distribution<F>,
{
    let kmax = if ctx.thorough { 8 } else { 6 };
    let k = g.range(2, kmax);
    let dim = g.range(1, 3);
    let specials = g.chance(0.7);
    let lp: Vec<F> = (0..k).map(|_| table_entry::<F>(g, specials)).collect();
    let symmetric = g.chance(0.2);
    let mut lq: Vec<Vec<F>> = (0..k)
        .map(|_| (0..k).map(|_| table_entry::<F>(g, specials)).collect())
        .collect();
    if symmetric {
        for i in 0..k {
            for j in 0..i {
                lq[i][j] = lq[j][i];
            }
        }
    }
    // in a fifth of the tables the states have different lengths (trans-dimensional moves: the
    // candidate replaces the state whatever its length)
    let vardim = g.chance(0.2);
    if vardim {
        rep.count("tables_with_states_of_different_lengths");
    }
    let states: Vec<Vec<S>> = (0..k)
        .map(|i| {
            let mut v = vec![S::from_index(i)];
            let di = if vardim { 1 + (i + g.below(3)) % 4 } else { dim };
            for _ in 1..di {
                v.push(S::weird(g.next_u64()));
            }
            v
        })
        .collect();
    let target = TableTarget { lp: lp.clone() };
    let proposal = ScriptProposal {
        states: states.clone(),
        lq: lq.clone(),
        next: 0,
        calls_this_step: 0,
    };
    let mut chain: MHMarkovChain<S, F, _, _> =
        MHMarkovChain::new(target, proposal, states[0].clone());
    let steps = F::STEPS;
    let mon = "table";
    let sig_base = format!("MHMarkovChain::step S={} F={}", S::NAME, F::NAME);
    rep.distinct(("table", S::NAME, F::NAME, k, dim, specials, symmetric));
    let mut acc = vec![vec![f64::NAN; k]; k];
    let mut tol = vec![vec![0.0f64; k]; k];

    for x in 0..k {
        for y in 0..k {
            // one observed execution of the real step with injected draw index kk
            let mut probe = |kk: u64, rep: &mut Report, salt: u64| -> Option<bool> {
                chain.current_state = states[x].clone();
                chain.proposal.next = y;
                chain.proposal.calls_this_step = 0;
                chain.rng = F::craft(kk, salt);
                let u: F = F::peek(&chain.rng);
                let res = guard(|| chain.step().clone());
                rep.eval();
                let out = match res {
                    Ok(o) => o,
                    Err(msg) => {
                        rep.violation(
                            &format!("{sig_base} panic"),
                            mon,
                            case,
                            json!({"x": x, "y": y, "k": kk, "panic": msg}),
                        );
                        return None;
                    }
                };
                let d = decide(lp[x], lp[y], lq[x][y], lq[y][x], u);
                let uf = u.to_f64().unwrap();
                if uf == 0.0 {
                    rep.count("draw_u_eq_0");
                }
                if kk == steps - 1 {
                    rep.count("draw_u_eq_1_minus_ulp");
                }
                let at_x = bits_eq(&out, &states[x]);
                let at_y = bits_eq(&out, &states[y]);
                let detail = || {
                    json!({"x": x, "y": y, "u": fj(uf), "k": kk, "ratio": fj(d.ratio),
                    "lp_x": fj(lp[x].to_f64().unwrap()), "lp_y": fj(lp[y].to_f64().unwrap()),
                    "q_xy": fj(lq[x][y].to_f64().unwrap()), "q_yx": fj(lq[y][x].to_f64().unwrap()),
                    "state_x_bits": bits_vec(&states[x]), "state_y_bits": bits_vec(&states[y]),
                    "out_bits": bits_vec(&out), "expected_accept": d.accept})
                };
                if !at_x && !at_y {
                    rep.violation(&format!("{sig_base} state-not-x-or-y"), mon, case, detail());
                    return None;
                }
                if x == y {
                    rep.held();
                    rep.count("self_proposal");
                    return Some(d.accept);
                }
                if !d.firm {
                    rep.inconclusive("decision within rounding margin or grouping-sensitive");
                    return Some(at_y);
                }
                if states[x] == states[y] {
                    rep.count("candidate_==_state_but_differs_bitwise(+0/-0)");
                }
                rep.count(d.class);
                if d.accept != at_y {
                    let kind = if d.accept {
                        "rejected-but-rule-accepts"
                    } else {
                        "accepted-but-rule-rejects"
                    };
                    rep.violation(
                        &format!("{sig_base} {kind} class={}", d.class),
                        mon,
                        case,
                        detail(),
                    );
                    return None;
                }
                rep.held();
                Some(at_y)
            };
            let salt = g.next_u64();
            let mut fixed = vec![0u64, 1, steps - 1, steps / 2];
            fixed.push(g.next_u64() % steps);
            fixed.push(g.next_u64() % steps);
            let mut ok = true;
            for kk in fixed {
                if probe(kk, rep, salt).is_none() {
                    ok = false;
                    break;
                }
            }
            if !ok || x == y {
                continue;
            }
            // bisection for the smallest k that is rejected => realised acceptance probability
            let a0 = probe(0, rep, salt);
            let a1 = probe(steps - 1, rep, salt);
            let (a0, a1) = match (a0, a1) {
                (Some(a), Some(b)) => (a, b),
                _ => continue,
            };
            let kstar = if !a0 {
                0
            } else if a1 {
                steps
            } else {
                let (mut lo, mut hi) = (0u64, steps - 1); // accept(lo), !accept(hi)
                let mut bad = false;
                while hi - lo > 1 {
                    let mid = lo + (hi - lo) / 2;
                    match probe(mid, rep, salt) {
                        Some(true) => lo = mid,
                        Some(false) => hi = mid,
                        None => {
                            bad = true;
                            break;
                        }
                    }
                }
                if bad {
                    continue;
                }
                hi
            };
            let a = kstar as f64 / steps as f64;
            acc[x][y] = a;
            rep.distinct(("boundary", kstar));
            rep.distinct_in("decision boundary positions (k* of 2^53 or 2^24)", kstar);
            let r = decide(lp[x], lp[y], lq[x][y], lq[y][x], F::of(0.5)).ratio;
            let ideal = if r.is_nan() { 0.0 } else { r.exp().min(1.0) };
            let t = ideal * (r.abs().min(1e3) + 2.0) * 8.0 * F::eps() + 2.0 / steps as f64;
            tol[x][y] = if t.is_finite() { t } else { 1.0 };
            rep.max("max_acceptance_prob_error_over_tol", (a - ideal).abs() / tol[x][y]);
            if (a - ideal).abs() > tol[x][y] {
                rep.violation(
                    &format!("{sig_base} realised-acceptance-probability"),
                    mon,
                    case,
                    json!({"x": x, "y": y, "realised": a, "min(1,exp(ratio))": ideal, "ratio": fj(r)}),
                );
            } else {
                rep.held();
            }
        }
    }
    // detailed balance as observed
    for x in 0..k {
        for y in 0..x {
            let (lx, ly) = (lp[x].to_f64().unwrap(), lp[y].to_f64().unwrap());
            let (qxy, qyx) = (lq[x][y].to_f64().unwrap(), lq[y][x].to_f64().unwrap());
            if !(lx.is_finite() && ly.is_finite() && qxy.is_finite() && qyx.is_finite()) {
                continue;
            }
            if acc[x][y].is_nan() || acc[y][x].is_nan() {
                continue;
            }
            let wx = (lx + qxy).exp();
            let wy = (ly + qyx).exp();
            let lhs = wx * acc[x][y];
            let rhs = wy * acc[y][x];
            let t = wx * tol[x][y] + wy * tol[y][x];
            rep.count("detailed_balance_pairs");
            rep.max("max_detailed_balance_residual_over_tol", (lhs - rhs).abs() / t);
            if (lhs - rhs).abs() > t {
                rep.violation(
                    &format!("{sig_base} detailed-balance"),
                    mon,
                    case,
                    json!({"x": x, "y": y, "pi_x q_xy a_xy": lhs, "pi_y q_yx a_yx": rhs}),
                );
            } else {
                rep.held();
            }
        }
    }
    rep.sample(json!({"monitor": "table", "S": S::NAME, "F": F::NAME, "k": k, "dim": dim,
        "lp": lp.iter().map(|v| fj(v.to_f64().unwrap())).collect::<Vec<_>>(),
        "accept_prob_row0": fjv(&acc[0])}));
}

// ------------------------------------------------------------------------------------------
// shadow execution on real programs

#[derive(Clone, Debug)]
struct RecProposal<Q, S> {
    inner: Q,
    samples: Vec<Vec<S>>,
}
impl<S: Clone, F: Float, Q: Proposal<S, F>> Proposal<S, F> for RecProposal<Q, S> {
    fn sample(&mut self, current: &[S]) -> Vec<S> {
        let y = self.inner.sample(current);
        self.samples.push(y.clone());
        y
    }
    fn logp(&self, from: &[S], to: &[S]) -> F {
        self.inner.logp(from, to)
    }
    fn set_seed(self, seed: u64) -> Self {
        RecProposal {
            inner: self.inner.set_seed(seed),
            samples: self.samples,
        }
    }
}

/// log-normal multiplicative random walk: y_i = x_i * exp(sigma z_i); asymmetric density
#[derive(Clone, Debug)]
struct LogNormalRw<F> {
    sigma: F,
    rng: SmallRng,
}
impl<F: Fl> Proposal<F, F> for LogNormalRw<F>
where
    StandardNormal: Distribution<F>,
{
    fn sample(&mut self, current: &[F]) -> Vec<F> {
        current
            .iter()
            .map(|x| {
                let z: F = self.rng.sample(StandardNormal);
                *x * (self.sigma * z).exp()
            })
            .collect()
    }
    fn logp(&self, from: &[F], to: &[F]) -> F {
        let mut lp = F::zero();
        let two = F::of(2.0);
        for (f, t) in from.iter().zip(to) {
            let d = t.ln() - f.ln();
            lp = lp - t.ln() - d * d / (two * self.sigma * self.sigma);
        }
        lp
    }
    fn set_seed(mut self, seed: u64) -> Self {
        self.rng = SmallRng::seed_from_u64(seed);
        self
    }
}

/// independence sampler: y ~ N(0, s^2 I) whatever x is
#[derive(Clone, Debug)]
struct Independence<F> {
    s: F,
    rng: SmallRng,
}
impl<F: Fl> Proposal<F, F> for Independence<F>
where
    StandardNormal: Distribution<F>,
{
    fn sample(&mut self, current: &[F]) -> Vec<F> {
        current
            .iter()
            .map(|_| {
                let z: F = self.rng.sample(StandardNormal);
                self.s * z
            })
            .collect()
    }
    fn logp(&self, _from: &[F], to: &[F]) -> F {
        let mut lp = F::zero();
        for t in to {
            lp = lp - *t * *t / (F::of(2.0) * self.s * self.s);
        }
        lp
    }
    fn set_seed(mut self, seed: u64) -> Self {
        self.rng = SmallRng::seed_from_u64(seed);
        self
    }
}

/// the README's reflecting +-1 walk on the non-negative integers (asymmetric at 0)
#[derive(Clone, Debug)]
struct ReflectWalk {
    rng: SmallRng,
}
macro_rules! reflect_walk {
    ($s:ty) => {
        impl<F: Fl> Proposal<$s, F> for ReflectWalk {
            fn sample(&mut self, current: &[$s]) -> Vec<$s> {
                let x = current[0];
                if x == 0 {
                    vec![1]
                } else if self.rng.random::<bool>() {
                    vec![x + 1]
                } else {
                    vec![x - 1]
                }
            }
            fn logp(&self, from: &[$s], to: &[$s]) -> F {
                let (f, t) = (from[0] as i64, to[0] as i64);
                if f == 0 {
                    if t == 1 {
                        F::zero()
                    } else {
                        F::neg_infinity()
                    }
                } else if (t - f).abs() == 1 {
                    F::of(0.5f64.ln())
                } else {
                    F::neg_infinity()
                }
            }
            fn set_seed(mut self, seed: u64) -> Self {
                self.rng = SmallRng::seed_from_u64(seed);
                self
            }
        }
    };
}
reflect_walk!(i32);
reflect_walk!(usize);

#[derive(Clone, Debug)]
struct Poisson {
    lambda: f64,
}
macro_rules! poisson_target {
    ($s:ty) => {
        impl<F: Fl> Target<$s, F> for Poisson {
            fn unnorm_logp(&self, position: &[$s]) -> F {
                let k = position[0] as i64;
                if k < 0 {
                    return F::neg_infinity();
                }
                let lf: f64 = (1..=k).map(|v| (v as f64).ln()).sum();
                F::of(-self.lambda + k as f64 * self.lambda.ln() - lf)
            }
        }
    };
}
poisson_target!(i32);
poisson_target!(usize);

/// product of Gamma(a, b) on the positive half line, -inf outside
#[derive(Clone, Debug)]
struct GammaTarget<F> {
    a: F,
    b: F,
}
impl<F: Fl> Target<F, F> for GammaTarget<F> {
    fn unnorm_logp(&self, position: &[F]) -> F {
        let mut lp = F::zero();
        for x in position {
            if *x <= F::zero() {
                return F::neg_infinity();
            }
            lp = lp + (self.a - F::one()) * x.ln() - self.b * *x;
        }
        lp
    }
}

/// log-density that is NaN on x0 < 0 (sqrt of a negative number)
#[derive(Clone, Debug)]
struct SqrtTarget;
impl<F: Fl> Target<F, F> for SqrtTarget {
    fn unnorm_logp(&self, position: &[F]) -> F {
        let mut lp = F::zero();
        for x in position {
            let s = x.sqrt() - F::one();
            lp = lp - F::of(2.0) * s * s;
        }
        lp
    }
}

/// uniform on a box, -inf outside
#[derive(Clone, Debug)]
struct BoxTarget<F> {
    half: F,
}
impl<F: Fl> Target<F, F> for BoxTarget<F> {
    fn unnorm_logp(&self, position: &[F]) -> F {
        if position.iter().all(|x| x.abs() <= self.half) {
            F::zero()
        } else {
            F::neg_infinity()
        }
    }
}

#[allow(clippy::too_many_arguments)]
fn shadow_run<S, F, D, Q>(
    rep: &mut Report,
    case: u64,
    name: &str,
    target: D,
    proposal: Q,
    start: Vec<S>,
    seed: u64,
    n_steps: usize,
) where
    S: Bits + Clone + PartialEq + num_traits::Zero + Debug,
    F: Fl,
    D: Target<S, F> + Clone,
    Q: Proposal<S, F> + Clone,
    StandardUniform: Distribution<F>,
{
    let mon = "shadow";
    let sig_base = format!("MHMarkovChain::step program={name} F={}", F::NAME);
    let rec = RecProposal {
        inner: proposal,
        samples: vec![],
    };
    let mut chain: MHMarkovChain<S, F, D, RecProposal<Q, S>> =
        MHMarkovChain::new(target.clone(), rec, start);
    chain.rng = SmallRng::seed_from_u64(seed);
    rep.distinct(("shadow", name, F::NAME, seed));
    let mut moved = 0u64;
    for step in 0..n_steps {
        let x = chain.current_state.clone();
        let u: F = F::peek(&chain.rng);
        chain.proposal.samples.clear();
        let res = guard(|| chain.step().clone());
        rep.eval();
        let out = match res {
            Ok(o) => o,
            Err(msg) => {
                rep.violation(
                    &format!("{sig_base} panic"),
                    mon,
                    case,
                    json!({"step": step, "panic": msg, "x": f64_vec(&x)}),
                );
                return;
            }
        };
        if chain.proposal.samples.is_empty() {
            rep.inconclusive("proposal not sampled in this step");
            continue;
        }
        // the candidate of the step is the first one drawn: a step that goes on to draw another one
        // and ends there is judged against the rule for the first (it ends at neither x nor y)
        if chain.proposal.samples.len() > 1 {
            rep.count("steps_in_which_the_proposal_was_sampled_more_than_once");
        }
        let y = chain.proposal.samples[0].clone();
        let lp_x = target.unnorm_logp(&x);
        let lp_y = target.unnorm_logp(&y);
        let q_xy = chain.proposal.inner.logp(&x, &y);
        let q_yx = chain.proposal.inner.logp(&y, &x);
        let d = decide(lp_x, lp_y, q_xy, q_yx, u);
        let at_x = bits_eq(&out, &x);
        let at_y = bits_eq(&out, &y);
        let detail = || {
            json!({"step": step, "x": f64_vec(&x), "y": f64_vec(&y), "out": f64_vec(&out),
            "u": fj(u.to_f64().unwrap()), "ratio": fj(d.ratio), "lp_x": fj(lp_x.to_f64().unwrap()),
            "lp_y": fj(lp_y.to_f64().unwrap()), "q_xy": fj(q_xy.to_f64().unwrap()),
            "q_yx": fj(q_yx.to_f64().unwrap()), "seed": seed})
        };
        if !at_x && !at_y {
            rep.violation(&format!("{sig_base} state-not-x-or-y"), mon, case, detail());
            return;
        }
        if at_x && at_y {
            rep.held();
            continue;
        }
        if !d.firm {
            rep.inconclusive("decision within rounding margin or grouping-sensitive");
            continue;
        }
        rep.count(d.class);
        if q_xy.to_f64().unwrap() != q_yx.to_f64().unwrap() {
            rep.count("asymmetric_proposal_steps");
        }
        if d.accept != at_y {
            let kind = if d.accept {
                "rejected-but-rule-accepts"
            } else {
                "accepted-but-rule-rejects"
            };
            rep.violation(
                &format!("{sig_base} {kind} class={}", d.class),
                mon,
                case,
                detail(),
            );
            return;
        }
        if at_y {
            moved += 1;
        }
        rep.held();
    }
    rep.count_n("shadow_moves", moved);
    rep.sample(json!({"monitor": "shadow", "program": name, "F": F::NAME, "seed": seed,
        "steps": n_steps, "moves": moved, "final_state": f64_vec(&chain.current_state)}));
}

fn shadow_case<F: Fl + ndarray::NdFloat + std::ops::AddAssign>(
    ctx: &Ctx,
    rep: &mut Report,
    case: u64,
    g: &mut Sm64,
) where
    StandardUniform: Distribution<F>,
    StandardNormal: Distribution<F>,
{
    let n_steps = if ctx.thorough { 4000 } else { 1500 };
    let seed = g.next_u64();
    let pseed = g.next_u64();
    match g.below(8) {
        0 => {
            // library target + library proposal
            let a = g.uniform(0.3, 3.0);
            let c = g.uniform(0.3, 3.0);
            let rho = g.uniform(-0.9, 0.9);
            let b = rho * (a * c).sqrt();
            let target = Gaussian2D {
                mean: ndarray::arr1(&[F::of(g.uniform(-2.0, 2.0)), F::of(g.uniform(-2.0, 2.0))]),
                cov: ndarray::arr2(&[[F::of(a), F::of(b)], [F::of(b), F::of(c)]]),
            };
            let prop = IsotropicGaussian::new(F::of(g.log_uniform(0.05, 5.0))).set_seed(pseed);
            let start = vec![F::of(g.normal()), F::of(g.normal())];
            shadow_run(rep, case, "Gaussian2D+IsotropicGaussian", target, prop, start, seed, n_steps);
        }
        1 => {
            let target = GammaTarget {
                a: F::of(g.uniform(0.5, 5.0)),
                b: F::of(g.uniform(0.2, 3.0)),
            };
            let prop = LogNormalRw {
                sigma: F::of(g.log_uniform(0.1, 2.0)),
                rng: SmallRng::seed_from_u64(pseed),
            };
            let d = g.range(1, 4);
            let start = (0..d).map(|_| F::of(g.uniform(0.2, 3.0))).collect();
            shadow_run(rep, case, "Gamma+LogNormalRW(asymmetric)", target, prop, start, seed, n_steps);
        }
        2 => {
            let target = IsotropicGaussian::new(F::of(g.uniform(0.5, 2.0)));
            let prop = Independence {
                s: F::of(g.uniform(0.3, 4.0)),
                rng: SmallRng::seed_from_u64(pseed),
            };
            let d = g.range(1, 5);
            let start = (0..d).map(|_| F::of(g.normal())).collect();
            shadow_run(rep, case, "IsoGaussianTarget+Independence", target, prop, start, seed, n_steps);
        }
        3 => {
            let target = Poisson {
                lambda: g.uniform(0.3, 6.0),
            };
            let prop = ReflectWalk {
                rng: SmallRng::seed_from_u64(pseed),
            };
            shadow_run::<i32, F, _, _>(rep, case, "Poisson+ReflectWalk<i32>", target, prop, vec![0], seed, n_steps);
        }
        4 => {
            let target = Poisson {
                lambda: g.uniform(0.3, 6.0),
            };
            let prop = ReflectWalk {
                rng: SmallRng::seed_from_u64(pseed),
            };
            shadow_run::<usize, F, _, _>(rep, case, "Poisson+ReflectWalk<usize>", target, prop, vec![3], seed, n_steps);
        }
        5 => {
            let prop = IsotropicGaussian::new(F::of(g.log_uniform(0.3, 3.0))).set_seed(pseed);
            let d = g.range(1, 3);
            let start = (0..d).map(|_| F::of(g.uniform(0.5, 2.0))).collect();
            shadow_run(rep, case, "SqrtTarget(NaN region)+IsotropicGaussian", SqrtTarget, prop, start, seed, n_steps);
        }
        6 => {
            let target = BoxTarget {
                half: F::of(g.uniform(0.5, 2.0)),
            };
            let prop = IsotropicGaussian::new(F::of(g.log_uniform(0.3, 3.0))).set_seed(pseed);
            let d = g.range(1, 3);
            let start = vec![F::zero(); d];
            shadow_run(rep, case, "Box(-inf outside)+IsotropicGaussian", target, prop, start, seed, n_steps);
        }
        _ => {
            let target = GammaTarget {
                a: F::of(g.uniform(1.0, 4.0)),
                b: F::of(g.uniform(0.5, 2.0)),
            };
            // symmetric proposal that leaves the support about half of the time
            let prop = IsotropicGaussian::new(F::of(g.log_uniform(1.0, 10.0))).set_seed(pseed);
            let start = vec![F::of(g.uniform(0.1, 1.0))];
            shadow_run(rep, case, "Gamma+IsotropicGaussian(leaves support)", target, prop, start, seed, n_steps);
        }
    }
}

pub fn run(ctx: &Ctx, rep: &mut Report) {
    for case in ctx.case_ids("table", 240, 2_000_000) {
        let mut g = ctx.rng("table", case);
        match case % 8 {
            0 => table_case::<f64, f64>(ctx, rep, case, &mut g),
            1 => table_case::<f32, f32>(ctx, rep, case, &mut g),
            2 => table_case::<i32, f64>(ctx, rep, case, &mut g),
            3 => table_case::<usize, f32>(ctx, rep, case, &mut g),
            4 => table_case::<f32, f64>(ctx, rep, case, &mut g),
            5 => table_case::<f64, f32>(ctx, rep, case, &mut g),
            6 => table_case::<i32, f32>(ctx, rep, case, &mut g),
            _ => table_case::<usize, f64>(ctx, rep, case, &mut g),
        }
    }
    for case in ctx.case_ids("shadow", 160, 1_500_000) {
        let mut g = ctx.rng("shadow", case);
        if case % 2 == 0 {
            shadow_case::<f64>(ctx, rep, case, &mut g);
        } else {
            shadow_case::<f32>(ctx, rep, case, &mut g);
        }
    }
}
