//! C13 — streaming trackers equal batch statistics; progress R-hat equals the classical one.

use crate::refstats;
use crate::util::*;
use mini_mcmc::stats::{collect_rhat, ChainStats, ChainTracker, MultiChainTracker};
use serde_json::json;

pub trait TElem: Copy + num_traits::Num + num_traits::ToPrimitive + num_traits::FromPrimitive + PartialOrd + std::fmt::Debug {
    const NAME: &'static str;
    const INT: bool;
    fn of(x: f64) -> Self;
}
impl TElem for f32 {
    const NAME: &'static str = "f32";
    const INT: bool = false;
    fn of(x: f64) -> f32 {
        x as f32
    }
}
impl TElem for f64 {
    const NAME: &'static str = "f64";
    const INT: bool = false;
    fn of(x: f64) -> f64 {
        x
    }
}
impl TElem for i32 {
    const NAME: &'static str = "i32";
    const INT: bool = true;
    fn of(x: f64) -> i32 {
        x.round() as i32
    }
}
impl TElem for usize {
    const NAME: &'static str = "usize";
    const INT: bool = true;
    fn of(x: f64) -> usize {
        x.round().max(0.0) as usize
    }
}

fn pick_len(g: &mut Sm64, max: usize) -> usize {
    match g.below(6) {
        0 => 2,
        1 => 3,
        2 | 3 => g.range(2, 60),
        4 => g.range(60, 600),
        _ => g.range(600, max),
    }
}

/// states[chain][t][param] as T, plus their f32 images as f64 (what the tracker is specified over)
fn gen_states<T: TElem>(g: &mut Sm64, n_chains: usize, len: usize, n_params: usize) -> (Vec<Vec<Vec<T>>>, Vec<f64>, Vec<f64>) {
    let mut locs = vec![];
    let mut scales = vec![];
    for _ in 0..n_params {
        let ratio = if g.chance(0.7) { g.uniform(-3.0, 3.0) } else { g.uniform(-30.0, 30.0) };
        // (integers: sometimes magnitudes whose squares exceed the range of 32-bit integers)
        // (floats: sometimes scales near the ends of what single-precision arithmetic can hold, kept
        // small enough that the sum of squares of the whole sequence, len * x^2, stays below 1e37)
        let s = if T::INT && g.chance(0.3) { g.uniform(5_000.0, 30_000.0) } else if T::INT { g.uniform(2.0, 40.0) } else if g.chance(0.12) { g.log_uniform(1e12, 3e16).min((1e37 / len as f64).sqrt() / (ratio.abs() + 6.0)) } else if g.chance(0.1) { g.log_uniform(1e-16, 1e-12) } else if g.chance(0.3) { g.log_uniform(1e-6, 1e4) } else { g.log_uniform(1e-2, 1e2) };
        scales.push(s);
        locs.push(if T::INT && s > 1000.0 { (ratio.abs().min(3.0) + 3.0) * s } else if T::INT { (ratio.abs() * s).min(2000.0) + 3.0 * s } else { ratio * s });
    }
    let stay = g.uniform(0.0, 0.8); // probability that a state repeats (a "rejection")
    // float chains that sit on zeros and flip their sign (a reflection x -> -x at a zero coordinate
    // is not a move: -0.0 == 0.0)
    let zeros = !T::INT && g.chance(0.12);
    let mut out = vec![];
    for _ in 0..n_chains {
        let shift: Vec<f64> = (0..n_params).map(|j| if g.chance(0.3) { g.normal() * scales[j] } else { 0.0 }).collect();
        let mut chain: Vec<Vec<T>> = vec![];
        for t in 0..len {
            if zeros && t > 0 && g.chance(0.5) {
                // every zero coordinate changes sign, the others stay
                let prev = chain[t - 1].clone();
                chain.push(prev.iter().map(|x| if *x == T::zero() { T::of(-0.0) * T::of(if g.bool() { 1.0 } else { -1.0 }) } else { *x }).collect());
            } else if zeros {
                chain.push((0..n_params).map(|j| if g.chance(0.7) { T::of(if g.bool() { 0.0 } else { -0.0 }) } else { T::of(locs[j] + scales[j] * g.normal()) }).collect());
            } else if t > 0 && g.chance(stay) {
                let prev = chain[t - 1].clone();
                chain.push(prev);
            } else {
                chain.push((0..n_params).map(|j| T::of(locs[j] + shift[j] + scales[j] * g.normal())).collect());
            }
        }
        out.push(chain);
    }
    (out, locs, scales)
}

fn f32img<T: TElem>(x: T) -> f64 {
    x.to_f32().unwrap() as f64
}

fn chain_case<T: TElem>(ctx: &Ctx, rep: &mut Report, case: u64, g: &mut Sm64) {
    let mon = "trackers";
    let n_chains = g.range(2, 16);
    let n_params = g.range(1, 8);
    let len = pick_len(g, if ctx.thorough { 5000 } else { 2500 });
    let (states, _locs, _scales) = gen_states::<T>(g, n_chains, len, n_params);
    let inits: Vec<Vec<T>> = (0..n_chains)
        .map(|c| {
            if g.chance(0.5) {
                states[c][0].clone() // first update repeats the initial state: indicator 0, unambiguous
            } else {
                // every coordinate differs, at any magnitude: indicator 1
                states[c][0].iter().map(|x| if *x == T::zero() { T::one() } else { *x + *x }).collect()
            }
        })
        .collect();
    let cj = json!({"T": T::NAME, "n_chains": n_chains, "n_params": n_params, "len": len});
    rep.distinct(("trackers", T::NAME, n_chains, n_params, len));
    let sig = format!("ChainTracker T={}", T::NAME);
    let mut trackers: Vec<ChainTracker> = vec![];
    let mut final_stats: Vec<ChainStats> = vec![];
    for c in 0..n_chains {
        let r = guard(|| {
            let mut tr = ChainTracker::new(n_params, &inits[c]);
            let mut p_hist = vec![];
            for t in 0..len {
                tr.step(&states[c][t]).unwrap();
                p_hist.push(tr.stats().p_accept);
            }
            (tr, p_hist)
        });
        rep.evals(len as u64);
        let (tr, p_hist) = match r {
            Ok(x) => x,
            Err(m) => {
                rep.violation(&format!("{sig} panic"), mon, case, json!({"cfg": cj, "panic": m}));
                return;
            }
        };
        // acceptance-rate EMA
        let mut prev_p = f64::NAN;
        for t in 0..len {
            let p = p_hist[t] as f64;
            if !(0.0..=1.0).contains(&p) {
                rep.violation(&format!("{sig} p_accept-outside-[0,1]"), mon, case, json!({"cfg": cj, "chain": c, "t": t, "p_accept": fj(p)}));
                return;
            }
            let prev_state: &Vec<T> = if t == 0 { &inits[c] } else { &states[c][t - 1] };
            let differs = states[c][t].iter().zip(prev_state).any(|(a, b)| f32img(*a) != f32img(*b));
            let ind = if differs { 1.0 } else { 0.0 };
            if t == 0 {
                // unambiguous by construction (all coordinates differ or none)
                if (p - ind).abs() > 1e-6 {
                    rep.violation(&format!("{sig} first-p_accept-is-not-the-first-indicator"), mon, case,
                        json!({"cfg": cj, "chain": c, "p_accept": p, "indicator": ind}));
                    return;
                }
            } else {
                let expect = 0.99 * prev_p + 0.01 * ind;
                if (p - expect).abs() > 2e-6 {
                    rep.violation(&format!("{sig} p_accept-is-not-the-EMA-of-move-indicators"), mon, case,
                        json!({"cfg": cj, "chain": c, "t": t, "p_accept": p, "expected": expect, "indicator": ind}));
                    return;
                }
            }
            prev_p = p;
            rep.held();
        }
        // count / mean / unbiased variance
        let st = tr.stats();
        if st.n != len as u64 {
            rep.violation(&format!("{sig} count"), mon, case, json!({"cfg": cj, "chain": c, "n": st.n}));
            return;
        }
        for j in 0..n_params {
            let xs: Vec<f64> = (0..len).map(|t| f32img(states[c][t][j])).collect();
            let (m, v) = refstats::mean_uvar(&xs);
            let eps = f32::EPSILON as f64;
            let nn = len as f64;
            let mag = m * m + v;
            let tol_m = 4.0 * nn * eps * (m.abs() + v.sqrt()) + 1e-30;
            let tol_v = 1e-3 * v + 6.0 * nn * eps * mag + 1e-30;
            rep.max("mean_error_over_tol", (st.mean[j] as f64 - m).abs() / tol_m);
            rep.max("variance_error_over_tol", (st.sm2[j] as f64 - v).abs() / tol_v);
            if (st.mean[j] as f64 - m).abs() > tol_m {
                rep.violation(&format!("{sig} mean"), mon, case, json!({"cfg": cj, "chain": c, "param": j, "reported": st.mean[j], "batch": m, "tol": tol_m}));
                return;
            }
            if (st.sm2[j] as f64 - v).abs() > tol_v {
                rep.violation(&format!("{sig} unbiased-variance"), mon, case, json!({"cfg": cj, "chain": c, "param": j, "reported": st.sm2[j], "batch": v, "tol": tol_v}));
                return;
            }
            rep.held();
        }
        final_stats.push(st);
        trackers.push(tr);
    }
    // collect_rhat == classical sqrt(var+/W) == MultiChainTracker::rhat
    let refs: Vec<&ChainStats> = final_stats.iter().collect();
    rep.eval();
    let cr = match guard(|| collect_rhat(&refs)) {
        Ok(r) => r,
        Err(m) => {
            rep.violation("collect_rhat panic", mon, case, json!({"cfg": cj, "panic": m}));
            return;
        }
    };
    let mt = guard(|| {
        let mut mt = MultiChainTracker::new(n_chains, n_params);
        let mut p_hist = vec![];
        for t in 0..len {
            let flat: Vec<T> = (0..n_chains).flat_map(|c| states[c][t].clone()).collect();
            mt.step(&flat).unwrap();
            p_hist.push(mt.p_accept);
        }
        (mt.rhat().unwrap(), mt.max_rhat(), p_hist)
    });
    rep.evals(len as u64);
    let (mr, max_r, mp) = match mt {
        Ok(x) => x,
        Err(m) => {
            rep.violation("MultiChainTracker panic", mon, case, json!({"cfg": cj, "panic": m}));
            return;
        }
    };
    // multi-chain EMA: same recursion folded over the chains of one update; first update range-checked only
    let mut p = mp[0] as f64;
    if !(0.0..=1.0).contains(&p) {
        rep.violation("MultiChainTracker p_accept-outside-[0,1]", mon, case, json!({"cfg": cj, "t": 0, "p_accept": fj(p)}));
        return;
    }
    for t in 1..len {
        for c in 0..n_chains {
            let differs = states[c][t].iter().zip(&states[c][t - 1]).any(|(a, b)| f32img(*a) != f32img(*b));
            p = 0.99 * p + 0.01 * if differs { 1.0 } else { 0.0 };
        }
        let got = mp[t] as f64;
        if !(0.0..=1.0).contains(&got) || (got - p).abs() > 1e-5 {
            rep.violation("MultiChainTracker p_accept-is-not-the-EMA-of-move-indicators", mon, case,
                json!({"cfg": cj, "t": t, "p_accept": fj(got), "expected": p}));
            return;
        }
        p = got; // follow the reported value so rounding does not accumulate
        rep.held();
    }
    for j in 0..n_params {
        let chains: Vec<Vec<f64>> = (0..n_chains).map(|c| (0..len).map(|t| f32img(states[c][t][j])).collect()).collect();
        let wv = refstats::within_var(&chains, 1);
        if !(wv.w > 0.0) || !wv.rhat.is_finite() {
            rep.inconclusive("zero within-chain variance: R-hat undefined");
            continue;
        }
        // conditioning-aware tolerance: the trackers hold running f32 means of x and x^2
        let eps = f32::EPSILON as f64;
        // (per chain: a chain far from the others has a large |mean|/sd even when the grand mean is small)
        let m2_max = chains.iter().map(|c| { let m = c.iter().sum::<f64>() / len as f64; m * m }).fold(0.0f64, f64::max);
        let cond = (m2_max + wv.w) / wv.w;
        // (a few ulps of the running sums times the conditioning, whatever the length: at least 16 steps' worth)
        let tol = 2e-3 * wv.rhat + 8.0 * (len.max(16) as f64) * eps * cond * wv.rhat + 1e-6;
        if tol > 0.25 * wv.rhat {
            // running f32 means of x and x^2 cannot resolve the within-chain variance here
            // (a handful of updates with |mean| >> sd): no relative accuracy can be demanded
            rep.inconclusive("within-chain variance below what running f32 sums can resolve: R-hat not compared");
            continue;
        }
        rep.max("collect_rhat_error_over_tol", (cr[j] as f64 - wv.rhat).abs() / tol);
        if (cr[j] as f64 - wv.rhat).abs() > tol {
            rep.violation(&format!("collect_rhat differs-from-classical-sqrt(var+/W) n_params{}", if n_params > 1 { ">1" } else { "=1" }), mon, case,
                json!({"cfg": cj, "param": j, "collect_rhat": fj(cr[j] as f64), "classical": wv.rhat, "MultiChainTracker": fj(mr[j] as f64), "tol": tol}));
            return;
        }
        if (mr[j] as f64 - wv.rhat).abs() > tol {
            rep.violation("MultiChainTracker::rhat differs-from-classical-sqrt(var+/W)", mon, case,
                json!({"cfg": cj, "param": j, "MultiChainTracker": fj(mr[j] as f64), "classical": wv.rhat, "tol": tol}));
            return;
        }
        rep.held();
    }
    if let Ok(mx) = max_r {
        let want = mr.iter().cloned().fold(f32::NEG_INFINITY, f32::max);
        if mr.iter().all(|x| x.is_finite()) && mx != want {
            rep.violation("MultiChainTracker::max_rhat is-not-the-maximum", mon, case, json!({"cfg": cj, "max_rhat": mx, "rhat": mr.to_vec()}));
            return;
        }
    }
    rep.count(if n_params > 1 { "histories_multi_param" } else { "histories_single_param" });
    rep.sample(json!({"cfg": cj, "collect_rhat": cr.iter().map(|x| fj(*x as f64)).collect::<Vec<_>>(),
        "multichain_rhat": mr.iter().map(|x| fj(*x as f64)).collect::<Vec<_>>()}));
}

pub fn run(ctx: &Ctx, rep: &mut Report) {
    for c in ctx.case_ids("trackers", 1000, 1_000_000) {
        let mut g = ctx.rng("trackers", c);
        match c % 4 {
            0 => chain_case::<f32>(ctx, rep, c, &mut g),
            1 => chain_case::<f64>(ctx, rep, c, &mut g),
            2 => chain_case::<i32>(ctx, rep, c, &mut g),
            _ => chain_case::<usize>(ctx, rep, c, &mut g),
        }
    }
}
