//! C17 — CSV / Arrow / Parquet export round-trips every value with correct labels.
//!
//! Files are written by the library and read back with the standard readers of the same crate
//! versions; unwritable targets are injected as faults (missing directory, path is a directory,
//! path below a regular file, /dev/full = every write fails with ENOSPC).

use crate::util::*;
use arrow::array::{Array, Float64Array, UInt32Array};
use arrow::ipc::reader::FileReader;
use arrow::record_batch::RecordBatch;
use burn::backend::NdArray;
use burn::tensor::{Tensor, TensorData};
use mini_mcmc::io::arrow::save_arrow;
use mini_mcmc::io::csv::{save_csv, save_csv_tensor};
use mini_mcmc::io::parquet::{save_parquet, save_parquet_tensor};
use ndarray::Array3;
use parquet::arrow::arrow_reader::ParquetRecordBatchReader;
use serde_json::json;
use std::fs::File;

#[derive(Clone, Copy, Debug, PartialEq, Eq, Hash)]
enum Entry {
    Csv,
    CsvTensor,
    Arrow,
    Parquet,
    ParquetTensor,
    /// save_parquet_tensor called with an element-type argument that is not the tensor's own
    /// (float tensors of the other width, integer tensors): success is still a promise
    ParquetTensorOtherT,
}
const ENTRIES: [Entry; 5] = [Entry::Csv, Entry::CsvTensor, Entry::Arrow, Entry::Parquet, Entry::ParquetTensor];

#[derive(Clone, Copy, Debug, PartialEq, Eq, Hash)]
enum Ty {
    F32,
    F64,
    I32,
    Usize,
}

/// values as f64 plus the exact bit image the element type holds
fn gen_values(g: &mut Sm64, ty: Ty, shape: (usize, usize, usize), encode: bool) -> Vec<f64> {
    let (a, b, c) = shape;
    let mut v = Vec::with_capacity(a * b * c);
    for i in 0..a {
        for j in 0..b {
            for k in 0..c {
                let x = if encode {
                    (i * 10_000 + j * 100 + k) as f64
                } else {
                    match ty {
                        Ty::F32 => match g.below(12) {
                            0 => f32::NAN as f64,
                            1 => f64::INFINITY,
                            2 => f64::NEG_INFINITY,
                            3 => -0.0,
                            4 => 0.0,
                            5 => f32::MAX as f64,
                            6 => f32::MIN as f64,
                            7 => (f32::MIN_POSITIVE / 8.0) as f64,
                            8 => f32::MIN_POSITIVE as f64,
                            _ => (g.normal() * g.log_uniform(1e-6, 1e6)) as f32 as f64,
                        },
                        Ty::F64 => match g.below(12) {
                            0 => f64::NAN,
                            1 => f64::INFINITY,
                            2 => f64::NEG_INFINITY,
                            3 => -0.0,
                            4 => 0.0,
                            5 => f64::MAX,
                            6 => f64::MIN,
                            7 => f64::MIN_POSITIVE / 8.0,
                            8 => 5e-324,
                            _ => g.normal() * g.log_uniform(1e-12, 1e12),
                        },
                        Ty::I32 => match g.below(6) {
                            0 => i32::MAX as f64,
                            1 => i32::MIN as f64,
                            2 => 0.0,
                            _ => (g.next_u64() as i32) as f64,
                        },
                        Ty::Usize => match g.below(6) {
                            0 => 0.0,
                            1 => (1u64 << 52) as f64,
                            _ => (g.next_u64() >> 12) as f64,
                        },
                    }
                };
                v.push(x);
            }
        }
    }
    v
}

/// Owned arrays with the same logical content in different memory layouts (a correct writer goes
/// by logical indices, whatever the strides are).
#[derive(Clone, Copy, Debug, PartialEq, Eq, Hash)]
enum Layout {
    Standard,
    Fortran,
    Permuted,
    SlicedReversed,
}
const LAYOUTS: [Layout; 4] = [Layout::Standard, Layout::Fortran, Layout::Permuted, Layout::SlicedReversed];

fn build<T: Clone + Default>(shape: (usize, usize, usize), vals: &[T], layout: Layout) -> Array3<T> {
    use ndarray::ShapeBuilder;
    let (a, b, c) = shape;
    let at = |i: usize, j: usize, k: usize| vals[(i * b + j) * c + k].clone();
    match layout {
        Layout::Standard => Array3::from_shape_fn(shape, |(i, j, k)| at(i, j, k)),
        Layout::Fortran => {
            let mut f = Array3::from_elem(shape.f(), T::default());
            for i in 0..a {
                for j in 0..b {
                    for k in 0..c {
                        f[[i, j, k]] = at(i, j, k);
                    }
                }
            }
            f
        }
        Layout::Permuted => Array3::from_shape_fn((b, a, c), |(j, i, k)| at(i, j, k)).permuted_axes([1, 0, 2]),
        Layout::SlicedReversed if b == 0 => Array3::from_shape_fn(shape, |(i, j, k)| at(i, j, k)),
        Layout::SlicedReversed => {
            // every second observation of a larger array, observation axis reversed
            let big = Array3::from_shape_fn((a, 2 * b, c), |(i, jj, k)| if jj % 2 == 1 && jj / 2 < b { at(i, b - 1 - jj / 2, k) } else { T::default() });
            let mut v = big.slice_move(ndarray::s![.., 1..;2, ..]);
            v.invert_axis(ndarray::Axis(1));
            v
        }
    }
}

fn same_f64(a: f64, b: f64) -> bool {
    (a.is_nan() && b.is_nan()) || a.to_bits() == b.to_bits()
}

/// rows as (label0, label1, values)
type Rows = Vec<(u64, u64, Vec<f64>)>;

fn read_batches(batches: Vec<RecordBatch>, names: (&str, &str), n_dims: usize) -> Result<Rows, String> {
    let mut rows = vec![];
    for b in batches {
        let schema = b.schema();
        let fields: Vec<String> = schema.fields().iter().map(|f| f.name().clone()).collect();
        let mut want = vec![names.0.to_string(), names.1.to_string()];
        want.extend((0..n_dims).map(|i| format!("dim_{i}")));
        if fields != want {
            return Err(format!("schema fields {fields:?}, documented {want:?}"));
        }
        let c0 = b.column(0).as_any().downcast_ref::<UInt32Array>().ok_or("label column 0 is not UInt32")?;
        let c1 = b.column(1).as_any().downcast_ref::<UInt32Array>().ok_or("label column 1 is not UInt32")?;
        let dims: Vec<&Float64Array> = (0..n_dims)
            .map(|i| b.column(2 + i).as_any().downcast_ref::<Float64Array>().ok_or("dim column is not Float64"))
            .collect::<Result<_, _>>()?;
        for r in 0..b.num_rows() {
            if c0.is_null(r) || c1.is_null(r) || dims.iter().any(|d| d.is_null(r)) {
                return Err("null cell".into());
            }
            rows.push((c0.value(r) as u64, c1.value(r) as u64, dims.iter().map(|d| d.value(r)).collect()));
        }
    }
    Ok(rows)
}

fn read_csv(path: &str, n_dims: usize, ty: Ty) -> Result<Rows, String> {
    let mut rdr = csv::Reader::from_path(path).map_err(|e| format!("csv open: {e}"))?;
    let hdr: Vec<String> = rdr.headers().map_err(|e| format!("csv header: {e}"))?.iter().map(|s| s.to_string()).collect();
    let mut want = vec!["chain".to_string(), "observation".to_string()];
    want.extend((0..n_dims).map(|i| format!("dim_{i}")));
    if hdr != want {
        return Err(format!("header {hdr:?}, documented {want:?}"));
    }
    let mut rows = vec![];
    for rec in rdr.records() {
        let rec = rec.map_err(|e| format!("csv record: {e}"))?;
        if rec.len() != 2 + n_dims {
            return Err(format!("record with {} fields", rec.len()));
        }
        let c: u64 = rec[0].parse().map_err(|_| format!("chain label {:?}", &rec[0]))?;
        let o: u64 = rec[1].parse().map_err(|_| format!("observation label {:?}", &rec[1]))?;
        let mut vals = vec![];
        for k in 0..n_dims {
            let s = &rec[2 + k];
            // parse in the element type that was written: the string must give back the same number
            let v: f64 = match ty {
                Ty::F32 => s.parse::<f32>().map_err(|_| format!("cell {s:?} does not parse as f32"))? as f64,
                Ty::F64 => s.parse::<f64>().map_err(|_| format!("cell {s:?} does not parse as f64"))?,
                Ty::I32 => s.parse::<i32>().map_err(|_| format!("cell {s:?} does not parse as i32"))? as f64,
                Ty::Usize => s.parse::<usize>().map_err(|_| format!("cell {s:?} does not parse as usize"))? as f64,
            };
            vals.push(v);
        }
        rows.push((c, o, vals));
    }
    Ok(rows)
}

#[allow(clippy::too_many_arguments)]
fn one(rep: &mut Report, mon: &str, case: u64, g: &mut Sm64, ctx: &Ctx, entry: Entry, ty: Ty, shape: (usize, usize, usize), encode: bool) {
    let (a, b, c) = shape; // array axes as passed to the function
    let vals = gen_values(g, ty, shape, encode);
    let path = format!("{}/c17_{}_{}.out", ctx.scratch, case, g.next_u64());
    let layout = if matches!(entry, Entry::Csv | Entry::Arrow | Entry::Parquet) { LAYOUTS[g.below(4)] } else { Layout::Standard };
    rep.count(&format!("layout[{layout:?}]"));
    // element-type argument for the OtherT entry: never the tensor's own element type
    let other_t = loop {
        let k = g.below(6);
        if !((ty == Ty::F32 && k == 0) || (ty == Ty::F64 && k == 1)) {
            break k;
        }
    };
    let cfg = json!({"entry": format!("{entry:?}"), "type": format!("{ty:?}"),
        "element_type_argument": if entry == Entry::ParquetTensorOtherT { ["f32", "f64", "i32", "u8", "i16", "u32"][other_t] } else { "the tensor's own" }, "shape": [a, b, c], "encoded_cells": encode, "memory_layout": format!("{layout:?}")});
    let sig = format!("{entry:?}");
    // sometimes the target file already exists with longer, unrelated content: it must be replaced
    if g.chance(0.3) {
        let _ = std::fs::write(&path, vec![b'#'; 20_000 + g.below(50_000)]);
        rep.count("target_file_pre_existing");
    }
    rep.eval();
    rep.count(&format!("entry[{entry:?}]"));
    // write
    // (set once the input tensor exists: a panic before that is burn's, one after it the library's)
    let built = std::cell::Cell::new(false);
    let wrote: Result<Result<(), String>, String> = guard(|| {
        let arr_f = |f: &dyn Fn(f64) -> f64| -> Vec<f64> { vals.iter().map(|x| f(*x)).collect() };
        let _ = arr_f;
        match (entry, ty) {
            (Entry::Csv, Ty::F32) => save_csv(&build(shape, &vals.iter().map(|x| *x as f32).collect::<Vec<_>>(), layout), &path),
            (Entry::Csv, Ty::F64) => save_csv(&build(shape, &vals, layout), &path),
            (Entry::Csv, Ty::I32) => save_csv(&build(shape, &vals.iter().map(|x| *x as i32).collect::<Vec<_>>(), layout), &path),
            (Entry::Csv, Ty::Usize) => save_csv(&build(shape, &vals.iter().map(|x| *x as usize).collect::<Vec<_>>(), layout), &path),
            (Entry::Arrow, Ty::F32) => save_arrow(&build(shape, &vals.iter().map(|x| *x as f32).collect::<Vec<_>>(), layout), &path),
            (Entry::Arrow, Ty::F64) => save_arrow(&build(shape, &vals, layout), &path),
            (Entry::Arrow, Ty::I32) => save_arrow(&build(shape, &vals.iter().map(|x| *x as i32).collect::<Vec<_>>(), layout), &path),
            (Entry::Parquet, Ty::F32) => save_parquet(&build(shape, &vals.iter().map(|x| *x as f32).collect::<Vec<_>>(), layout), &path),
            (Entry::Parquet, Ty::F64) => save_parquet(&build(shape, &vals, layout), &path),
            (Entry::Parquet, Ty::I32) => save_parquet(&build(shape, &vals.iter().map(|x| *x as i32).collect::<Vec<_>>(), layout), &path),
            (Entry::CsvTensor, Ty::F32) => {
                let t = Tensor::<NdArray<f32>, 3>::from_data(TensorData::new(vals.iter().map(|x| *x as f32).collect::<Vec<f32>>(), [a, b, c]), &Default::default());
                built.set(true);
                save_csv_tensor(t, &path)
            }
            (Entry::CsvTensor, Ty::F64) => {
                let t = Tensor::<NdArray<f64>, 3>::from_data(TensorData::new(vals.clone(), [a, b, c]), &Default::default());
                built.set(true);
                save_csv_tensor(t, &path)
            }
            (Entry::ParquetTensor, Ty::F32) => {
                let t = Tensor::<NdArray<f32>, 3>::from_data(TensorData::new(vals.iter().map(|x| *x as f32).collect::<Vec<f32>>(), [a, b, c]), &Default::default());
                built.set(true);
                save_parquet_tensor::<NdArray<f32>, _, f32>(&t, &path)
            }
            (Entry::ParquetTensor, Ty::F64) => {
                let t = Tensor::<NdArray<f64>, 3>::from_data(TensorData::new(vals.clone(), [a, b, c]), &Default::default());
                built.set(true);
                save_parquet_tensor::<NdArray<f64>, _, f64>(&t, &path)
            }
            (Entry::ParquetTensorOtherT, _) => {
                macro_rules! with_t {
                    ($t:expr) => {{
                        built.set(true);
                        match other_t {
                            0 => save_parquet_tensor::<_, _, f32>($t, &path),
                            1 => save_parquet_tensor::<_, _, f64>($t, &path),
                            2 => save_parquet_tensor::<_, _, i32>($t, &path),
                            3 => save_parquet_tensor::<_, _, u8>($t, &path),
                            4 => save_parquet_tensor::<_, _, i16>($t, &path),
                            _ => save_parquet_tensor::<_, _, u32>($t, &path),
                        }
                    }};
                }
                match ty {
                    Ty::F32 => {
                        let t = Tensor::<NdArray<f32>, 3>::from_data(TensorData::new(vals.iter().map(|x| *x as f32).collect::<Vec<f32>>(), [a, b, c]), &Default::default());
                        with_t!(&t)
                    }
                    Ty::F64 => {
                        let t = Tensor::<NdArray<f64>, 3>::from_data(TensorData::new(vals.clone(), [a, b, c]), &Default::default());
                        with_t!(&t)
                    }
                    _ => {
                        let t = Tensor::<NdArray<f32>, 3, burn::tensor::Int>::from_data(TensorData::new(vals.iter().map(|x| *x as i32 as i64).collect::<Vec<i64>>(), [a, b, c]), &Default::default());
                        with_t!(&t)
                    }
                }
            }
            _ => unreachable!(),
        }
        .map_err(|e| format!("{e}"))
    });
    let cleanup = || {
        let _ = std::fs::remove_file(&path);
    };
    match wrote {
        Err(m) => {
            // a panic inside burn while *building* an empty tensor is not the library's doing
            if (a == 0 || b == 0 || c == 0) && matches!(entry, Entry::CsvTensor | Entry::ParquetTensor | Entry::ParquetTensorOtherT) && !built.get() {
                rep.inconclusive("burn could not build the empty input tensor");
                cleanup();
                return;
            }
            rep.violation(&format!("{sig} panic"), mon, case, json!({"cfg": cfg, "panic": m}));
            cleanup();
            return;
        }
        Ok(Err(e)) => {
            // "whenever a save function reports success": an Err is not a violation
            rep.count("save_returned_err");
            rep.inconclusive("save function returned Err (no claim made by the statement)");
            if rep.notes.len() < 3 {
                rep.note(format!("{entry:?} {ty:?} {shape:?}: Err {}", e.lines().next().unwrap_or("")));
            }
            cleanup();
            return;
        }
        Ok(Ok(())) => {}
    }
    // the element type's own rounding of the generated value = what was stored
    let stored: Vec<f64> = vals
        .iter()
        .map(|x| match ty {
            Ty::F32 => (*x as f32) as f64,
            Ty::F64 => *x,
            Ty::I32 => (*x as i32) as f64,
            Ty::Usize => (*x as usize) as f64,
        })
        .collect();
    // read back
    let (names, outer_is_first_label) = match entry {
        Entry::ParquetTensor | Entry::ParquetTensorOtherT => (("observation", "chain"), true),
        _ => (("chain", "observation"), true),
    };
    let _ = outer_is_first_label;
    let rows: Result<Rows, String> = guard(|| match entry {
        Entry::Csv | Entry::CsvTensor => read_csv(&path, c, ty),
        Entry::Arrow => {
            let f = File::open(&path).map_err(|e| format!("open: {e}"))?;
            let rdr = FileReader::try_new(f, None).map_err(|e| format!("arrow reader: {e}"))?;
            let batches: Vec<RecordBatch> = rdr.collect::<Result<_, _>>().map_err(|e| format!("arrow batch: {e}"))?;
            read_batches(batches, names, c)
        }
        Entry::Parquet | Entry::ParquetTensor | Entry::ParquetTensorOtherT => {
            let f = File::open(&path).map_err(|e| format!("open: {e}"))?;
            let rdr = ParquetRecordBatchReader::try_new(f, 1024).map_err(|e| format!("parquet reader: {e}"))?;
            let batches: Vec<RecordBatch> = rdr.collect::<Result<_, _>>().map_err(|e| format!("parquet batch: {e}"))?;
            read_batches(batches, names, c)
        }
    })
    .unwrap_or_else(|p| Err(format!("reader panicked: {p}")));
    cleanup();
    let rows = match rows {
        Ok(r) => r,
        Err(e) => {
            rep.violation(&format!("{sig} file-not-readable-or-wrong-schema"), mon, case, json!({"cfg": cfg, "error": e}));
            return;
        }
    };
    // one row per (outer, inner) cell in the documented order, labels = indices, values bit-exact
    if rows.len() != a * b {
        rep.violation(&format!("{sig} wrong-number-of-rows"), mon, case, json!({"cfg": cfg, "rows": rows.len(), "expected": a * b}));
        return;
    }
    for (r, (l0, l1, v)) in rows.iter().enumerate() {
        let (i, j) = (r / b.max(1), r % b.max(1));
        if *l0 != i as u64 || *l1 != j as u64 {
            rep.violation(&format!("{sig} wrong-labels-or-row-order"), mon, case,
                json!({"cfg": cfg, "row": r, "labels": [l0, l1], "expected": [i, j], "label_names": [names.0, names.1]}));
            return;
        }
        for k in 0..c {
            let want = stored[(i * b + j) * c + k];
            if !same_f64(v[k], want) {
                rep.violation(&format!("{sig} value-does-not-round-trip"), mon, case,
                    json!({"cfg": cfg, "row": r, "dim": k, "read_back": fj(v[k]), "stored": fj(want), "read_bits": v[k].to_bits(), "stored_bits": want.to_bits()}));
                return;
            }
        }
    }
    rep.held();
    rep.count_n("cells_round_tripped", (a * b * c) as u64);
    if a * b * c == 0 {
        rep.count("empty_arrays_round_tripped");
    }
    rep.distinct(("io", format!("{entry:?}"), format!("{ty:?}"), a, b, c, encode, format!("{layout:?}")));
    rep.distinct_in("shapes round-tripped", (a, b, c));
    if rep.samples.len() < 4 {
        rep.sample(json!({"cfg": cfg, "rows": rows.len(), "first_row": rows.first().map(|r| json!({"labels": [r.0, r.1], "values": fjv(&r.2[..r.2.len().min(4)])}))}));
    }
}

fn g_encode(case: u64) -> bool {
    case % 2 == 0
}

fn types_for(entry: Entry) -> &'static [Ty] {
    match entry {
        Entry::Csv => &[Ty::F32, Ty::F64, Ty::I32, Ty::Usize],
        Entry::Arrow | Entry::Parquet => &[Ty::F32, Ty::F64, Ty::I32],
        Entry::CsvTensor | Entry::ParquetTensor => &[Ty::F32, Ty::F64],
        Entry::ParquetTensorOtherT => &[Ty::F32, Ty::F64, Ty::I32],
    }
}

fn fault_case(rep: &mut Report, case: u64, g: &mut Sm64, ctx: &Ctx) {
    let mon = "faults";
    let entry = ENTRIES[g.below(5)];
    let dirpath = format!("{}/c17_dir_{}", ctx.scratch, case);
    let filepath = format!("{}/c17_file_{}", ctx.scratch, case);
    let _ = std::fs::create_dir_all(&dirpath);
    let _ = std::fs::write(&filepath, b"x");
    let targets = [
        ("missing directory", format!("{}/no/such/dir/out.bin", ctx.scratch)),
        ("path is a directory", dirpath.clone()),
        ("path below a regular file", format!("{filepath}/out.bin")),
        ("/dev/full (ENOSPC on every write)", "/dev/full".to_string()),
        ("empty path", String::new()),
    ];
    let (kind, path) = &targets[g.below(targets.len())];
    let shape = (g.range(1, 3), g.range(1, 40), g.range(1, 4));
    // enough data that buffered writers have to flush at least at close
    let big = g.chance(0.3);
    let shape = if big { (4, 4000, 6) } else { shape };
    let n = shape.0 * shape.1 * shape.2;
    let vals: Vec<f32> = (0..n).map(|i| i as f32 * 0.5).collect();
    rep.eval();
    rep.count(&format!("fault[{kind}]"));
    let r = guard(|| {
        match entry {
            Entry::Csv => save_csv(&Array3::from_shape_vec(shape, vals.clone()).unwrap(), path),
            Entry::Arrow => save_arrow(&Array3::from_shape_vec(shape, vals.clone()).unwrap(), path),
            Entry::Parquet => save_parquet(&Array3::from_shape_vec(shape, vals.clone()).unwrap(), path),
            Entry::CsvTensor => {
                let t = Tensor::<NdArray<f32>, 3>::from_data(TensorData::new(vals.clone(), [shape.0, shape.1, shape.2]), &Default::default());
                save_csv_tensor(t, path)
            }
            Entry::ParquetTensor | Entry::ParquetTensorOtherT => {
                let t = Tensor::<NdArray<f32>, 3>::from_data(TensorData::new(vals.clone(), [shape.0, shape.1, shape.2]), &Default::default());
                save_parquet_tensor::<NdArray<f32>, _, f32>(&t, path)
            }
        }
        .map_err(|e| format!("{e}"))
    });
    let _ = std::fs::remove_dir_all(&dirpath);
    let _ = std::fs::remove_file(&filepath);
    let cfg = json!({"entry": format!("{entry:?}"), "fault": kind, "path": path, "shape": [shape.0, shape.1, shape.2]});
    rep.distinct(("fault", format!("{entry:?}"), kind.to_string(), big));
    match r {
        Err(m) => rep.violation(&format!("{entry:?} panic-on-unwritable-path: {kind}"), mon, case, json!({"cfg": cfg, "panic": m})),
        Ok(Ok(())) => rep.violation(&format!("{entry:?} reports-success-on-unwritable-path: {kind}"), mon, case, cfg),
        Ok(Err(_)) => {
            rep.held();
            // the failed export must leave nothing behind: the next export of the same kind on this
            // thread (to a writable path, at most as many dim columns) round-trips as usual
            let ty = types_for(entry)[0];
            let shape2 = (g.range(1, 3), g.range(1, 6), g.range(1, shape.2));
            rep.count("exports_right_after_a_failed_export");
            one(rep, "faults", case, g, ctx, entry, ty, shape2, g_encode(case));
        }
    }
}

pub fn run(ctx: &Ctx, rep: &mut Report) {
    let _ = std::fs::create_dir_all(&ctx.scratch);
    if ctx.thorough {
        // exhaustive shapes 0..6 x 0..40 x 0..8 for every entry point (types rotate)
        let total = 7 * 41 * 9;
        // four rounds over the exhaustive shape grid: element types, memory layouts and values rotate
        let rounds = 4u64;
        for id in ctx.case_ids("shapes", total as u64 * rounds, total as u64 * rounds) {
            let mut g = ctx.rng("shapes", id);
            let (round, sid) = ((id / total as u64) as usize, (id % total as u64) as usize);
            let (a, b, c) = (sid / (41 * 9), (sid / 9) % 41, sid % 9);
            for (ei, entry) in ENTRIES.iter().enumerate() {
                let tys = types_for(*entry);
                let ty = tys[(sid + ei + round) % tys.len()];
                let encode = (sid + ei + round) % 3 == 0;
                one(rep, "shapes", id, &mut g, ctx, *entry, ty, (a, b, c), encode);
            }
        }
    } else {
        for id in ctx.case_ids("shapes", 500, 500) {
            let mut g = ctx.rng("shapes", id);
            let pick = |g: &mut Sm64, hi: usize| if g.chance(0.25) { *g.choose(&[0usize, 1, hi]) } else { g.range(0, hi) };
            let shape = (pick(&mut g, 6), pick(&mut g, 40), pick(&mut g, 8));
            let entry = ENTRIES[(id as usize) % 5];
            let tys = types_for(entry);
            let ty = tys[g.below(tys.len())];
            let encode = g.chance(0.4);
            one(rep, "shapes", id, &mut g, ctx, entry, ty, shape, encode);
        }
    }
    for id in ctx.case_ids("typeargs", 120, 6000) {
        let mut g = ctx.rng("typeargs", id);
        let pick = |g: &mut Sm64, hi: usize| if g.chance(0.2) { *g.choose(&[0usize, 1, hi]) } else { g.range(1, hi) };
        let shape = (pick(&mut g, 6), pick(&mut g, 20), pick(&mut g, 8));
        let tys = types_for(Entry::ParquetTensorOtherT);
        let ty = tys[g.below(tys.len())];
        let encode = g.chance(0.2);
        one(rep, "typeargs", id, &mut g, ctx, Entry::ParquetTensorOtherT, ty, shape, encode);
    }
    for id in ctx.case_ids("faults", 120, 30_000) {
        let mut g = ctx.rng("faults", id);
        fault_case(rep, id, &mut g, ctx);
    }
}
