//! C06 — long-run averages converge to the target's expectations (finite-run restatement):
//! chains are started from exact draws of the target, so a correct kernel is stationary from step 0;
//! the mean over R independent replicate chains of each test function must lie within a calibrated
//! multiple of its Monte-Carlo standard error (from the replicate spread) of the closed-form value.
//! A second monitor tests the hooked draws themselves (momenta, slice draws, uniforms, directions).

use crate::props::c01::Fl;
use crate::props::c03::parse;
use crate::targets::*;
use crate::util::*;
use burn::backend::{Autodiff, NdArray};
use mini_mcmc::core::ChainRunner;
use mini_mcmc::distributions::{Conditional, IsotropicGaussian, Proposal, Target};
use mini_mcmc::gibbs::GibbsSampler;
use mini_mcmc::hmc::HMC;
use mini_mcmc::metropolis_hastings::MetropolisHastings;
use mini_mcmc::nuts::NUTS;
use mini_mcmc::verif as hook;
use rand::rngs::SmallRng;
use rand::{Rng, SeedableRng};
use rand_distr::{Distribution, StandardNormal, StandardUniform};
use serde_json::json;

type B32 = Autodiff<NdArray<f32>>;
type B64 = Autodiff<NdArray<f64>>;

const Z90: f64 = 1.2815515655446004;
const Z99: f64 = 2.3263478740408408;

/// two-sided rejection threshold for a t statistic with `df` degrees of freedom at p ~ 1e-9
fn t_threshold(df: usize) -> f64 {
    match df {
        0..=14 => 16.0,
        15..=30 => 13.0,
        31..=62 => 8.8,
        63..=126 => 7.5,
        127..=254 => 7.0,
        255..=1022 => 6.7,
        _ => 6.5,
    }
}

pub struct Stat {
    pub name: String,
    pub truth: f64,
    pub reps: Vec<f64>,
}

/// test functions of a Gaussian with given mean/cov on a set of draws [n][d]
fn gauss_stats(mean: &[f64], cov: &[f64], d: usize, chains: &[Vec<Vec<f64>>]) -> Vec<Stat> {
    let mut out = vec![];
    let per = |f: &dyn Fn(&[f64]) -> f64| -> Vec<f64> { chains.iter().map(|c| c.iter().map(|x| f(x)).sum::<f64>() / c.len() as f64).collect() };
    for i in 0..d {
        let sd = cov[i * d + i].sqrt();
        out.push(Stat { name: format!("E[x{i}]"), truth: mean[i], reps: per(&|x| x[i]) });
        out.push(Stat { name: format!("E[x{i}^2]"), truth: cov[i * d + i] + mean[i] * mean[i], reps: per(&|x| x[i] * x[i]) });
        out.push(Stat { name: format!("P[x{i}>q90]"), truth: 0.1, reps: per(&|x| if x[i] > mean[i] + Z90 * sd { 1.0 } else { 0.0 }) });
        out.push(Stat { name: format!("P[x{i}>q99]"), truth: 0.01, reps: per(&|x| if x[i] > mean[i] + Z99 * sd { 1.0 } else { 0.0 }) });
        for j in 0..i {
            out.push(Stat { name: format!("E[x{i}x{j}]"), truth: cov[i * d + j] + mean[i] * mean[j], reps: per(&|x| x[i] * x[j]) });
        }
    }
    out
}

fn judge(rep: &mut Report, sig: &str, mon: &str, case: u64, cfg: &serde_json::Value, stats: &[Stat]) -> bool {
    let mut worst = 0.0f64;
    let mut table = vec![];
    for s in stats {
        let r = s.reps.len();
        let (m, v) = mean_var(&s.reps);
        let se = (v / r as f64).sqrt();
        if !(se > 0.0) {
            // degenerate statistic (e.g. a tail event never seen in any replicate)
            if (m - s.truth).abs() > 1e-12 && s.truth > 0.0 && m == 0.0 && (1.0 - s.truth).powf(r as f64) < 1e-9 {
                rep.violation(&format!("{sig} statistic-degenerate"), mon, case, json!({"cfg": cfg, "stat": s.name, "estimate": m, "truth": s.truth}));
                return false;
            }
            continue;
        }
        // a replicate-based standard error is only trustworthy if the per-chain values are not
        // dominated by rare events (e.g. tail frequencies of a sticky chain: most chains see none,
        // one chain that starts in the tail sees almost only those): skip such statistics
        let lo = s.reps.iter().cloned().fold(f64::INFINITY, f64::min);
        let at_lo = s.reps.iter().filter(|x| **x == lo).count();
        let m4 = s.reps.iter().map(|x| (x - m).powi(4)).sum::<f64>() / r as f64;
        let kurt = m4 / (v * v * ((r - 1) as f64 / r as f64).powi(2));
        if at_lo * 5 > r * 2 || kurt > 12.0 {
            rep.count("statistics_skipped_heavy_tailed_across_replicates");
            continue;
        }
        let z = (m - s.truth) / se;
        worst = worst.max(z.abs() / t_threshold(r - 1));
        table.push(json!({"stat": s.name, "estimate": m, "truth": s.truth, "se": se, "z": z}));
        rep.count("statistics_tested");
        if z.abs() > t_threshold(r - 1) {
            rep.violation(&format!("{sig} estimate-outside-Monte-Carlo-error"), mon, case,
                json!({"cfg": cfg, "stat": s.name, "estimate": m, "truth": s.truth, "se": se, "z": z, "replicates": r, "threshold": t_threshold(r - 1)}));
            return false;
        }
        if z.abs() > 5.0 {
            rep.note(format!("warning: |z| = {:.2} for {} ({sig})", z.abs(), s.name));
        }
    }
    rep.max("worst_abs_z_over_threshold", worst);
    rep.held();
    rep.sample(json!({"cfg": cfg, "statistics": table.iter().take(5).collect::<Vec<_>>()}));
    true
}

// ---------------------------------------------------------------------------------------------
impl<F: Fl> Target<F, F> for DenseGauss {
    fn unnorm_logp(&self, position: &[F]) -> F {
        let x: Vec<f64> = position.iter().map(|v| v.to_f64().unwrap()).collect();
        F::of(RefTarget::logp(self, &x))
    }
}

/// AR(1)-type proposal y ~ N(rho x, s^2 I): asymmetric, the Hastings correction matters
#[derive(Clone, Debug)]
struct ArProposal<F> {
    rho: F,
    s: F,
    centre: Vec<F>,
    rng: SmallRng,
}
impl<F: Fl> Proposal<F, F> for ArProposal<F>
where
    StandardNormal: Distribution<F>,
{
    fn sample(&mut self, current: &[F]) -> Vec<F> {
        current.iter().zip(&self.centre).map(|(x, c)| { let z: F = self.rng.sample(StandardNormal); *c + self.rho * (*x - *c) + self.s * z }).collect()
    }
    fn logp(&self, from: &[F], to: &[F]) -> F {
        let mut lp = F::zero();
        for ((f, t), c) in from.iter().zip(to).zip(&self.centre) {
            let d = *t - (*c + self.rho * (*f - *c));
            lp = lp - d * d / (F::of(2.0) * self.s * self.s);
        }
        lp
    }
    fn set_seed(mut self, seed: u64) -> Self {
        self.rng = SmallRng::seed_from_u64(seed);
        self
    }
}

fn mh_gauss_case<F: Fl + std::ops::AddAssign + ndarray::LinalgScalar + num_traits::ToPrimitive>(ctx: &Ctx, rep: &mut Report, case: u64, g: &mut Sm64)
where
    StandardUniform: Distribution<F>,
    StandardNormal: Distribution<F>,
{
    let mon = "moments";
    let d = g.range(1, 5);
    let t = DenseGauss::random(g, d, 10.0);
    let (r, n) = if ctx.thorough { (512, 8000) } else { (128, 3000) };
    let n_discard = *g.choose(&[0usize, 0, 25]);
    let asym = g.bool();
    let seed = g.next_u64() >> 1;
    let inits: Vec<Vec<F>> = (0..r).map(|_| t.draw(g).iter().map(|x| F::of(*x)).collect()).collect();
    let cfg = json!({"sampler": "MH", "F": F::NAME, "target": t.name(), "proposal": if asym { "AR(1) (asymmetric)" } else { "IsotropicGaussian" },
        "replicates": r, "draws_per_chain": n, "n_discard": n_discard, "seed": seed});
    rep.distinct(("mh-gauss", F::NAME, d, asym, n_discard, case));
    let arr = if asym {
        // centred at the target mean, stationary spread s/sqrt(1-rho^2) at least 1.3 target sd:
        // asymmetric (the Hastings term matters) without being sticky in the tails
        let rho = g.uniform(0.3, 0.9);
        let sd_max = (0..d).map(|i| t.cov[i * d + i].sqrt()).fold(0.0, f64::max);
        let s_ar = g.uniform(1.3, 2.5) * sd_max * (1.0 - rho * rho).sqrt();
        let p = ArProposal { rho: F::of(rho), s: F::of(s_ar), centre: t.mean.iter().map(|m| F::of(*m)).collect(), rng: SmallRng::seed_from_u64(1) };
        guard(|| MetropolisHastings::new(t.clone(), p, inits.clone()).seed(seed).run(n, n_discard).unwrap())
    } else {
        let p = IsotropicGaussian::<F>::new(F::of(g.uniform(0.4, 1.6) / (d as f64).sqrt()));
        guard(|| MetropolisHastings::new(t.clone(), p, inits.clone()).seed(seed).run(n, n_discard).unwrap())
    };
    rep.evals((r * (n + n_discard)) as u64);
    let arr = match arr {
        Ok(a) => a,
        Err(m) => {
            rep.violation("MetropolisHastings::run panic", mon, case, json!({"cfg": cfg, "panic": m}));
            return;
        }
    };
    let chains: Vec<Vec<Vec<f64>>> = (0..r).map(|c| (0..n).map(|k| (0..d).map(|j| arr[[c, k, j]].to_f64().unwrap()).collect()).collect()).collect();
    let stats = gauss_stats(&t.mean, &t.cov, d, &chains);
    if judge(rep, "MetropolisHastings (Gaussian target)", mon, case, &cfg, &stats) {
        rep.count("mh_gaussian_families");
    }
}

// discrete MH ----------------------------------------------------------------------------------
#[derive(Clone, Debug)]
struct TablePmf {
    logp: Vec<f64>,
}
impl Target<i32, f64> for TablePmf {
    fn unnorm_logp(&self, position: &[i32]) -> f64 {
        let k = position[0];
        if k < 0 || k as usize >= self.logp.len() { f64::NEG_INFINITY } else { self.logp[k as usize] }
    }
}
/// +-1 walk reflecting at 0 (asymmetric at the boundary), or a jump proposal with a fixed table
#[derive(Clone, Debug)]
struct DiscreteProposal {
    rng: SmallRng,
    reflect: bool,
    k: usize,
}
impl Proposal<i32, f64> for DiscreteProposal {
    fn sample(&mut self, current: &[i32]) -> Vec<i32> {
        if self.reflect {
            let x = current[0];
            if x == 0 { vec![1] } else if self.rng.random::<bool>() { vec![x + 1] } else { vec![x - 1] }
        } else {
            // independent, non-uniform: probability proportional to (j+1)
            let tot = (self.k * (self.k + 1) / 2) as u32;
            let mut u = self.rng.random_range(0..tot);
            let mut j = 0;
            while u >= (j + 1) as u32 { u -= (j + 1) as u32; j += 1; }
            vec![j as i32]
        }
    }
    fn logp(&self, from: &[i32], to: &[i32]) -> f64 {
        if self.reflect {
            let (f, t) = (from[0], to[0]);
            if f == 0 { if t == 1 { 0.0 } else { f64::NEG_INFINITY } } else if (t - f).abs() == 1 { 0.5f64.ln() } else { f64::NEG_INFINITY }
        } else {
            ((to[0] + 1) as f64).ln()
        }
    }
    fn set_seed(mut self, seed: u64) -> Self {
        self.rng = SmallRng::seed_from_u64(seed);
        self
    }
}

fn mh_discrete_case(ctx: &Ctx, rep: &mut Report, case: u64, g: &mut Sm64) {
    let mon = "moments";
    let kind = g.below(3);
    let k = if kind == 2 { g.range(3, 8) } else { 40 };
    let (name, pmf): (&str, Vec<f64>) = match kind {
        0 => {
            let lam = g.uniform(0.5, 6.0);
            let mut p = vec![0.0; k];
            let mut lf = 0.0;
            for (i, pi) in p.iter_mut().enumerate() {
                if i > 0 { lf += (i as f64).ln(); }
                *pi = (-lam + i as f64 * lam.ln() - lf).exp();
            }
            ("Poisson (truncated at 40)", p)
        }
        1 => {
            let (nn, q) = (g.range(3, 30), g.uniform(0.1, 0.9));
            let mut p = vec![0.0; k];
            for (i, pi) in p.iter_mut().enumerate().take(nn + 1) {
                let mut lc = 0.0;
                for t in 0..i { lc += ((nn - t) as f64).ln() - ((t + 1) as f64).ln(); }
                *pi = (lc + i as f64 * q.ln() + (nn - i) as f64 * (1.0 - q).ln()).exp();
            }
            ("binomial", p)
        }
        _ => ("random table", (0..k).map(|_| g.uniform(0.05, 1.0)).collect()),
    };
    let tot: f64 = pmf.iter().sum();
    let pmf: Vec<f64> = pmf.iter().map(|p| p / tot).collect();
    let reflect = kind != 2 || g.bool();
    let (r, n) = if ctx.thorough { (256, 8000) } else { (64, 3000) };
    // some seeds make a chain's derived seeds hit structurally special values (0, 2^62, 2^63, ...)
    let kk = g.below(r) as u64;
    let seed = match g.below(6) {
        0 => u64::MAX.wrapping_sub(kk),
        1 => (1u64 << 62).wrapping_sub(1).wrapping_sub(kk),
        2 => (1u64 << 63).wrapping_sub(1).wrapping_sub(kk),
        _ => g.next_u64() >> 1,
    };
    let draw = |g: &mut Sm64| -> i32 {
        let u = g.f64();
        let mut c = 0.0;
        for (i, p) in pmf.iter().enumerate() { c += p; if u < c { return i as i32; } }
        (pmf.len() - 1) as i32
    };
    let inits: Vec<Vec<i32>> = (0..r).map(|_| vec![draw(g)]).collect();
    let cfg = json!({"sampler": "MH", "target": name, "states": k, "proposal": if reflect { "reflecting +-1 walk" } else { "independent non-uniform" }, "replicates": r, "draws_per_chain": n, "seed": seed});
    rep.distinct(("mh-discrete", kind, reflect, case));
    let target = TablePmf { logp: pmf.iter().map(|p| if *p > 0.0 { p.ln() } else { f64::NEG_INFINITY }).collect() };
    let prop = DiscreteProposal { rng: SmallRng::seed_from_u64(3), reflect, k };
    let arr = match guard(|| MetropolisHastings::new(target, prop, inits.clone()).seed(seed).run(n, 0).unwrap()) {
        Ok(a) => a,
        Err(m) => {
            rep.violation("MetropolisHastings::run panic", mon, case, json!({"cfg": cfg, "panic": m}));
            return;
        }
    };
    rep.evals((r * n) as u64);
    let mean: f64 = pmf.iter().enumerate().map(|(i, p)| i as f64 * p).sum();
    let m2: f64 = pmf.iter().enumerate().map(|(i, p)| (i * i) as f64 * p).sum();
    let mut stats = vec![
        Stat { name: "E[k]".into(), truth: mean, reps: (0..r).map(|c| (0..n).map(|t| arr[[c, t, 0]] as f64).sum::<f64>() / n as f64).collect() },
        Stat { name: "E[k^2]".into(), truth: m2, reps: (0..r).map(|c| (0..n).map(|t| (arr[[c, t, 0]] as f64).powi(2)).sum::<f64>() / n as f64).collect() },
    ];
    for (cell, p) in pmf.iter().enumerate() {
        if *p > 0.02 {
            stats.push(Stat { name: format!("P[k={cell}]"), truth: *p, reps: (0..r).map(|c| (0..n).filter(|t| arr[[c, *t, 0]] == cell as i32).count() as f64 / n as f64).collect() });
        }
    }
    if judge(rep, "MetropolisHastings (discrete target)", mon, case, &cfg, &stats) {
        rep.count("mh_discrete_families");
    }
}

// Gibbs ------------------------------------------------------------------------------------------
#[derive(Clone, Debug)]
struct BiGaussCond {
    m: [f64; 2],
    s: [f64; 2],
    rho: f64,
    rng: SmallRng,
}
impl Conditional<f64> for BiGaussCond {
    fn sample(&mut self, index: usize, given: &[f64]) -> f64 {
        let o = 1 - index;
        let mu = self.m[index] + self.rho * self.s[index] / self.s[o] * (given[o] - self.m[o]);
        let sd = self.s[index] * (1.0 - self.rho * self.rho).sqrt();
        let z: f64 = self.rng.sample(StandardNormal);
        mu + sd * z
    }
}
#[derive(Clone, Debug)]
struct TableCond {
    p: Vec<f64>, // 3 x 3 x 3
    rng: SmallRng,
}
impl Conditional<i32> for TableCond {
    fn sample(&mut self, index: usize, given: &[i32]) -> i32 {
        let mut w = [0.0; 3];
        for (v, wv) in w.iter_mut().enumerate() {
            let mut s = [given[0] as usize, given[1] as usize, given[2] as usize];
            s[index] = v;
            *wv = self.p[s[0] * 9 + s[1] * 3 + s[2]];
        }
        let tot: f64 = w.iter().sum();
        let u: f64 = self.rng.random::<f64>() * tot;
        if u < w[0] { 0 } else if u < w[0] + w[1] { 1 } else { 2 }
    }
}

fn gibbs_case(ctx: &Ctx, rep: &mut Report, case: u64, g: &mut Sm64) {
    let mon = "moments";
    let (r, n) = if ctx.thorough { (256, 4000) } else { (64, 1500) };
    let seed = g.next_u64();
    if g.bool() {
        let (m, s, rho) = ([g.uniform(-2.0, 2.0), g.uniform(-2.0, 2.0)], [g.uniform(0.5, 2.0), g.uniform(0.5, 2.0)], g.uniform(-0.95, 0.95));
        let cov = vec![s[0] * s[0], rho * s[0] * s[1], rho * s[0] * s[1], s[1] * s[1]];
        let cfg = json!({"sampler": "Gibbs", "target": "bivariate Gaussian", "rho": rho, "replicates": r, "draws_per_chain": n});
        rep.distinct(("gibbs-gauss", case));
        let inits: Vec<Vec<f64>> = (0..r).map(|_| {
            let (z0, z1) = (g.normal(), g.normal());
            vec![m[0] + s[0] * z0, m[1] + s[1] * (rho * z0 + (1.0 - rho * rho).sqrt() * z1)]
        }).collect();
        let res = guard(|| {
            let mut sm = GibbsSampler::new(BiGaussCond { m, s, rho, rng: SmallRng::seed_from_u64(0) }, inits.clone()).set_seed(seed);
            // the library has no handle on the randomness inside a user's Conditional: give every chain its own
            for (i, ch) in sm.chains.iter_mut().enumerate() {
                ch.target.rng = SmallRng::seed_from_u64(seed.wrapping_add(1000 + i as u64));
            }
            sm.run(n, 0).unwrap()
        });
        rep.evals((r * n) as u64);
        match res {
            Err(mm) => rep.violation("GibbsSampler::run panic", mon, case, json!({"cfg": cfg, "panic": mm})),
            Ok(arr) => {
                let chains: Vec<Vec<Vec<f64>>> = (0..r).map(|c| (0..n).map(|k| vec![arr[[c, k, 0]], arr[[c, k, 1]]]).collect()).collect();
                if judge(rep, "GibbsSampler (bivariate Gaussian)", mon, case, &cfg, &gauss_stats(&m, &cov, 2, &chains)) {
                    rep.count("gibbs_gaussian_families");
                }
            }
        }
    } else {
        let p: Vec<f64> = (0..27).map(|_| g.uniform(0.02, 1.0)).collect();
        let tot: f64 = p.iter().sum();
        let p: Vec<f64> = p.iter().map(|x| x / tot).collect();
        let cfg = json!({"sampler": "Gibbs", "target": "3-variable discrete table (3x3x3)", "replicates": r, "draws_per_chain": n});
        rep.distinct(("gibbs-table", case));
        let inits: Vec<Vec<i32>> = (0..r).map(|_| {
            let u = g.f64();
            let mut c = 0.0;
            let mut idx = 26;
            for (i, pi) in p.iter().enumerate() { c += pi; if u < c { idx = i; break; } }
            vec![(idx / 9) as i32, ((idx / 3) % 3) as i32, (idx % 3) as i32]
        }).collect();
        let res = guard(|| {
            let mut sm = GibbsSampler::new(TableCond { p: p.clone(), rng: SmallRng::seed_from_u64(0) }, inits.clone());
            for (i, ch) in sm.chains.iter_mut().enumerate() {
                ch.target.rng = SmallRng::seed_from_u64(seed.wrapping_add(5000 + i as u64));
            }
            sm.run(n, 0).unwrap()
        });
        rep.evals((r * n) as u64);
        match res {
            Err(mm) => rep.violation("GibbsSampler::run panic", mon, case, json!({"cfg": cfg, "panic": mm})),
            Ok(arr) => {
                let mut stats = vec![];
                for (cell, pc) in p.iter().enumerate() {
                    if *pc > 0.03 {
                        let (a, b, c3) = ((cell / 9) as i32, ((cell / 3) % 3) as i32, (cell % 3) as i32);
                        stats.push(Stat { name: format!("P[{a},{b},{c3}]"), truth: *pc,
                            reps: (0..r).map(|c| (0..n).filter(|t| arr[[c, *t, 0]] == a && arr[[c, *t, 1]] == b && arr[[c, *t, 2]] == c3).count() as f64 / n as f64).collect() });
                    }
                }
                if judge(rep, "GibbsSampler (discrete table)", mon, case, &cfg, &stats) {
                    rep.count("gibbs_discrete_families");
                }
            }
        }
    }
}

// HMC / NUTS --------------------------------------------------------------------------------------
fn draws_tests(rep: &mut Report, sig: &str, mon: &str, case: u64, cfg: &serde_json::Value, name: &str, xs: &mut Vec<f64>, kind: &str) -> bool {
    if xs.len() < 2000 {
        return true;
    }
    let n = xs.len() as f64;
    let lag1: f64 = xs.windows(2).map(|w| match kind { "normal" => w[0] * w[1], "exp" => (w[0] - 1.0) * (w[1] - 1.0), _ => (w[0] - 0.5) * (w[1] - 0.5) * 12.0 }).sum::<f64>() / (n - 1.0).sqrt();
    let (z1, z2, ks) = match kind {
        "normal" => {
            let m = xs.iter().sum::<f64>() / n;
            let v = xs.iter().map(|x| x * x).sum::<f64>() / n;
            (m * n.sqrt(), (v - 1.0) / (2.0 / n).sqrt(), ks_stat(xs, phi))
        }
        "exp" => {
            let m = xs.iter().sum::<f64>() / n;
            let v = xs.iter().map(|x| (x - 1.0) * (x - 1.0)).sum::<f64>() / n;
            ((m - 1.0) * n.sqrt(), (v - 1.0) / (8.0 / n).sqrt(), ks_stat(xs, |x| if x < 0.0 { 0.0 } else { 1.0 - (-x).exp() }))
        }
        _ => {
            let m = xs.iter().sum::<f64>() / n;
            let v = xs.iter().map(|x| (x - 0.5) * (x - 0.5)).sum::<f64>() / n;
            ((m - 0.5) * (12.0 * n).sqrt(), (v - 1.0 / 12.0) / (1.0 / 180.0 / n).sqrt(), ks_stat(xs, |x| x.clamp(0.0, 1.0)))
        }
    };
    rep.count_n(&format!("hooked_draws[{name}]"), xs.len() as u64);
    rep.max("hooked_draws_max_abs_z", z1.abs().max(z2.abs()).max(lag1.abs()));
    rep.max("hooked_draws_max_ks", ks);
    if z1.abs() > 6.5 || z2.abs() > 6.5 || lag1.abs() > 6.5 || ks > 3.6 {
        rep.violation(&format!("{sig} draw-stream-has-wrong-distribution: {name} should be {kind}"), mon, case,
            json!({"cfg": cfg, "n": xs.len(), "z_mean": z1, "z_var": z2, "z_lag1": lag1, "ks": ks}));
        return false;
    }
    rep.held();
    true
}

fn hmc_case<T: crate::props::c02::Scalar, B: burn::tensor::backend::AutodiffBackend>(ctx: &Ctx, rep: &mut Report, case: u64, g: &mut Sm64, bname: &str)
where
    StandardNormal: Distribution<T>,
    StandardUniform: Distribution<T>,
{
    let mon = "moments";
    let d = g.range(1, 5);
    let t = DenseGauss::random(g, d, 10.0);
    let (r, n) = if ctx.thorough { (2048, 2000) } else { (512, 600) };
    let l = g.range(2, 10);
    // up to the edge of the stable range (largest frequency sqrt(sqrt(10)) = 1.78): a good share of
    // proposals is rejected there, which is where errors in the accept/reject bookkeeping bias the draws
    let eps = g.uniform(0.15, 1.2) / 1.78;
    let seed = g.next_u64();
    let inits: Vec<Vec<T>> = (0..r).map(|_| t.draw(g).iter().map(|x| T::of(*x)).collect()).collect();
    let cfg = json!({"sampler": "HMC", "T": T::NAME, "backend": bname, "target": t.name(), "rows_as_replicates": r, "draws_per_row": n, "L": l, "step_size": eps, "seed": seed});
    rep.distinct(("hmc", T::NAME, bname.to_string(), d, l, case));
    hook::enable();
    let res = guard(|| {
        let mut s = HMC::<T, B, DenseGauss>::new(t.clone(), inits.clone(), T::of(eps), l).set_seed(seed);
        tv(&s.run(n, 0))
    });
    let events = hook::take();
    hook::disable();
    rep.evals((r * n) as u64);
    let v = match res {
        Ok(v) => v,
        Err(m) => {
            rep.violation("HMC::run panic", mon, case, json!({"cfg": cfg, "panic": m}));
            return;
        }
    };
    let chains: Vec<Vec<Vec<f64>>> = (0..r).map(|c| (0..n).map(|k| v[(c * n + k) * d..(c * n + k + 1) * d].to_vec()).collect()).collect();
    if !judge(rep, "HMC", mon, case, &cfg, &gauss_stats(&t.mean, &t.cov, d, &chains)) {
        return;
    }
    rep.count("hmc_families");
    // the draws the steps consumed
    let mut mom = vec![];
    let mut uni = vec![];
    let mut cross = 0.0f64;
    let mut cross_n = 0.0f64;
    for e in events.iter().take(60) {
        if let hook::Event::HmcStep { momenta, uniforms, .. } = e {
            for (row, u) in uniforms.iter().enumerate() {
                cross += momenta[row * d] * (u - 0.5) * 12f64.sqrt();
                cross_n += 1.0;
            }
            mom.extend(momenta.iter().cloned());
            uni.extend(uniforms.iter().cloned());
        }
    }
    if !draws_tests(rep, "HMC", "draws", case, &cfg, "momenta", &mut mom, "normal") || !draws_tests(rep, "HMC", "draws", case, &cfg, "acceptance uniforms", &mut uni, "uniform") {
        return;
    }
    let zc = cross / cross_n.sqrt();
    if zc.abs() > 6.5 {
        rep.violation("HMC draw-streams-correlated: momentum vs acceptance uniform", "draws", case, json!({"cfg": cfg, "z": zc}));
    }
}

fn nuts_case(ctx: &Ctx, rep: &mut Report, case: u64, g: &mut Sm64) {
    let mon = "moments";
    // half of the families in 5..10 dimensions with a low requested acceptance rate: energy errors
    // of order one, many doublings, subtrees with fewer admissible points than the tree so far
    let wide = g.chance(0.5);
    let d = if wide { g.range(5, 10) } else { g.range(1, 4) };
    let t = DenseGauss::random(g, d, 6.0);
    let (r, n, warm) = if ctx.thorough { (192, 400, 300) } else if wide { (64, 200, 120) } else { (48, 120, 120) };
    let seed = g.next_u64() >> 1;
    let delta = if wide { g.uniform(0.6, 0.7) } else { g.uniform(0.65, 0.9) };
    if wide {
        rep.count("nuts_families_dim5-10_low_acceptance");
    }
    let inits: Vec<Vec<f64>> = (0..r).map(|_| t.draw(g)).collect();
    let cfg = json!({"sampler": "NUTS", "target": t.name(), "replicates": r, "draws_per_chain": n, "warmup": warm, "delta": delta, "seed": seed});
    rep.distinct(("nuts", d, case));
    // trace one extra chain on this thread for the draw-stream tests
    let res = guard(|| {
        let mut s = NUTS::<f64, B64, DenseGauss>::new(t.clone(), inits.clone(), delta).set_seed(seed);
        tv(&s.run(n, warm))
    });
    rep.evals((r * (n + warm)) as u64);
    let v = match res {
        Ok(v) => v,
        Err(m) => {
            rep.violation("NUTS::run panic", mon, case, json!({"cfg": cfg, "panic": m}));
            return;
        }
    };
    let chains: Vec<Vec<Vec<f64>>> = (0..r).map(|c| (0..n).map(|k| v[(c * n + k) * d..(c * n + k + 1) * d].to_vec()).collect()).collect();
    let mut stats = gauss_stats(&t.mean, &t.cov, d, &chains);
    // pooled over all directions: E[(x-m)' P (x-m)] = d (a width bias of a few per cent in every
    // coordinate adds up here, the Monte-Carlo error shrinks like 1/sqrt(d))
    stats.push(Stat {
        name: "E[(x-m)'P(x-m)]".into(),
        truth: d as f64,
        reps: chains.iter().map(|c| c.iter().map(|x| -2.0 * crate::targets::RefTarget::logp(&t, x)).sum::<f64>() / c.len() as f64).collect(),
    });
    if let Some(q) = stats.last() {
        let (m, v) = mean_var(&q.reps);
        let z = (m - q.truth) / (v / q.reps.len() as f64).sqrt();
        rep.max("nuts_pooled_quadratic_form_abs_z_over_threshold", z.abs() / t_threshold(q.reps.len() - 1));
        rep.max("nuts_pooled_quadratic_form_rel_se", (v / q.reps.len() as f64).sqrt() / q.truth);
        if wide {
            rep.note(format!("NUTS d={d} delta={delta:.3}: E[(x-m)'P(x-m)]/d = {:.4} +- {:.4} (z = {z:.2})", m / q.truth, (v / q.reps.len() as f64).sqrt() / q.truth));
        }
    }
    if !judge(rep, "NUTS", mon, case, &cfg, &stats) {
        return;
    }
    rep.count("nuts_families");
    hook::enable();
    let _ = guard(|| {
        let mut ch = mini_mcmc::nuts::NUTSChain::<f64, B64, DenseGauss>::new(t.clone(), inits[0].clone(), delta).set_seed(seed ^ 0xABCD);
        let _ = ch.run(if ctx.thorough { 6000 } else { 1500 }, 30);
    });
    let events = hook::take();
    hook::disable();
    let tr = parse(&events);
    let mut mom: Vec<f64> = tr.iter().flat_map(|t| t.momentum.clone()).collect();
    let mut ex: Vec<f64> = tr.iter().map(|t| t.exp1).collect();
    let mut du: Vec<f64> = tr.iter().flat_map(|t| t.dirs.iter().map(|d| d.0)).collect();
    let mut mu: Vec<f64> = tr.iter().flat_map(|t| t.merge_u.iter().map(|m| m.0)).collect();
    let mut au: Vec<f64> = tr.iter().flat_map(|t| t.accept_u.iter().map(|m| m.0)).collect();
    let fwd = tr.iter().flat_map(|t| t.dirs.iter()).filter(|d| d.1 == 1).count() as f64;
    let nd = tr.iter().map(|t| t.dirs.len()).sum::<usize>() as f64;
    for (name, xs, kind) in [("momenta", &mut mom, "normal"), ("slice Exp(1) draws", &mut ex, "exp"), ("direction uniforms", &mut du, "uniform"), ("merge uniforms", &mut mu, "uniform"), ("accept uniforms", &mut au, "uniform")] {
        // (fewer than 2000 draws of a stream are not tested)
        if !draws_tests(rep, "NUTS", "draws", case, &cfg, name, xs, kind) {
            return;
        }
    }
    let zdir = (fwd - nd / 2.0) / (nd / 4.0).sqrt();
    if nd > 200.0 && zdir.abs() > 6.5 {
        rep.violation("NUTS directions-not-fair", "draws", case, json!({"cfg": cfg, "forward": fwd, "total": nd, "z": zdir}));
    }
}

pub fn run(ctx: &Ctx, rep: &mut Report) {
    for c in ctx.case_ids("moments", 40, 640) {
        let mut g = ctx.rng("moments", c);
        match c % 10 {
            0 => mh_gauss_case::<f64>(ctx, rep, c, &mut g),
            1 => mh_gauss_case::<f32>(ctx, rep, c, &mut g),
            2 | 3 => mh_discrete_case(ctx, rep, c, &mut g),
            4 | 5 => gibbs_case(ctx, rep, c, &mut g),
            6 => hmc_case::<f64, B64>(ctx, rep, c, &mut g, "NdArray<f64>"),
            7 => hmc_case::<f32, B32>(ctx, rep, c, &mut g, "NdArray<f32>"),
            _ => nuts_case(ctx, rep, c, &mut g),
        }
    }
}
