use crate::util::{Ctx, Report};

pub mod c01;
pub mod c05;
pub mod c07;
pub mod c08;
pub mod c09;

pub fn dispatch(ctx: &Ctx, rep: &mut Report) -> bool {
    match ctx.prop.as_str() {
        "C01" => c01::run(ctx, rep),
        "C05" => c05::run(ctx, rep),
        "C07" => c07::run(ctx, rep),
        "C08" => c08::run(ctx, rep),
        "C09" => c09::run(ctx, rep),
        _ => return false,
    }
    true
}
