use crate::util::{Ctx, Report};

pub mod c01;

pub fn dispatch(ctx: &Ctx, rep: &mut Report) -> bool {
    match ctx.prop.as_str() {
        "C01" => c01::run(ctx, rep),
        _ => return false,
    }
    true
}
