use crate::util::{Ctx, Report};

pub mod c01;
pub mod c02;
pub mod c03;
pub mod c04;
pub mod c05;
pub mod c06;
pub mod c07;
pub mod c08;
pub mod c09;
pub mod c10;
pub mod c11;
pub mod c12;
pub mod c13;
pub mod c14;
pub mod c15;
pub mod c16;
pub mod c17;
pub mod c18;
pub mod selfcheck;
pub mod dbg;

pub fn dispatch(ctx: &Ctx, rep: &mut Report) -> bool {
    match ctx.prop.as_str() {
        "C01" => c01::run(ctx, rep),
        "C02" => c02::run(ctx, rep),
        "C03" => c03::run(ctx, rep),
        "C04" => c04::run(ctx, rep),
        "C05" => c05::run(ctx, rep),
        "C06" => c06::run(ctx, rep),
        "C07" => c07::run(ctx, rep),
        "C08" => c08::run(ctx, rep),
        "C09" => c09::run(ctx, rep),
        "C10" => c10::run(ctx, rep),
        "C11" => c11::run(ctx, rep),
        "C12" => c12::run(ctx, rep),
        "C13" => c13::run(ctx, rep),
        "C14" => c14::run(ctx, rep),
        "C15" => c15::run(ctx, rep),
        "C16" => c16::run(ctx, rep),
        "C17" => c17::run(ctx, rep),
        "C18" => c18::run(ctx, rep),
        "DBG" => dbg::run(ctx, rep),
        "SELF" => selfcheck::run(ctx, rep),
        _ => return false,
    }
    true
}
