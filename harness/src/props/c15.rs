//! C15 — built-in densities, gradients and the isotropic proposal density match their definitions.

use crate::props::c01::Fl;
use crate::targets::*;
use crate::util::*;
use burn::backend::{Autodiff, NdArray};
use burn::prelude::*;
use burn::tensor::backend::AutodiffBackend;
use burn::tensor::Element;
use mini_mcmc::distributions::{
    BatchedGradientTarget, DiffableGaussian2D, Gaussian2D, GradientTarget, IsotropicGaussian, Normalized, Proposal, Rosenbrock2D,
    RosenbrockND, Target,
};
use rand_distr::{Distribution, StandardNormal};
use serde_json::json;

type B32 = Autodiff<NdArray<f32>>;
type B64 = Autodiff<NdArray<f64>>;

/// accepted distance between an implementation value and the f64 reference
fn tol(reference: f64, perturbed: f64, eps: f64) -> f64 {
    200.0 * (reference - perturbed).abs() + 256.0 * eps * reference.abs() + 64.0 * eps
}

fn jig(g: &mut Sm64, x: f64, eps: f64) -> f64 {
    x * (1.0 + (g.f64() - 0.5) * 2.0 * eps)
}

/// overall variance scale: mostly 1e-2..1e2, sometimes far smaller or larger (a determinant has
/// units: nothing may depend on its absolute size)
fn var_scale(g: &mut Sm64) -> f64 {
    match g.below(6) {
        0 => g.log_uniform(1e-12, 1e-2),
        1 => g.log_uniform(1e2, 1e8),
        _ => g.log_uniform(1e-2, 1e2),
    }
}

fn random_cov(g: &mut Sm64) -> [[f64; 2]; 2] {
    // structured special cases: exactly diagonal with unequal / equal variances, identity
    match g.below(8) {
        0 => {
            let s = var_scale(g);
            return [[s * g.log_uniform(1.0, 100.0), 0.0], [0.0, s]];
        }
        1 => {
            let s = var_scale(g);
            return [[s, 0.0], [0.0, s * g.log_uniform(1.0, 100.0)]];
        }
        2 => {
            let s = if g.bool() { 1.0 } else { var_scale(g) };
            return [[s, 0.0], [0.0, s]];
        }
        _ => {}
    }
    // SPD with condition number up to 1e4
    let cond = g.log_uniform(1.0, 1e4);
    let s = var_scale(g);
    let th = g.uniform(0.0, std::f64::consts::PI);
    let (l1, l2) = (s * cond.sqrt(), s / cond.sqrt());
    let (c, sn) = (th.cos(), th.sin());
    let a = l1 * c * c + l2 * sn * sn;
    let b = (l1 - l2) * c * sn;
    let d = l1 * sn * sn + l2 * c * c;
    [[a, b], [b, d]]
}

fn gaussian2d_case<F: Fl + ndarray::NdFloat>(rep: &mut Report, case: u64, g: &mut Sm64) {
    let mon = "gaussian2d";
    let sig = format!("Gaussian2D<{}>", F::NAME);
    let cov = random_cov(g);
    // the location lives on the distribution's own scale when that is far from 1 (otherwise the
    // argument x - mean is lost to cancellation before the library sees it)
    let sd0 = cov[0][0].max(cov[1][1]).sqrt();
    let ms = if !(0.05..=50.0).contains(&sd0) { sd0 } else { 1.0 };
    rep.count(&format!("covariance_scale[{}]", if sd0 < 0.05 { "sd<0.05" } else if sd0 > 50.0 { "sd>50" } else { "0.05..50" }));
    let mean = [g.uniform(-5.0, 5.0) * ms, g.uniform(-5.0, 5.0) * ms];
    // quantise parameters to F first: the reference sees exactly what the implementation sees
    let q = |x: f64| F::of(x).to_f64().unwrap();
    let cov = [[q(cov[0][0]), q(cov[0][1])], [q(cov[0][1]), q(cov[1][1])]];
    let mean = [q(mean[0]), q(mean[1])];
    let t = Gaussian2D::<F> {
        mean: ndarray::arr1(&[F::of(mean[0]), F::of(mean[1])]),
        cov: ndarray::arr2(&[[F::of(cov[0][0]), F::of(cov[0][1])], [F::of(cov[1][0]), F::of(cov[1][1])]]),
    };
    let r = Gauss2Ref { mean, cov };
    let sd = (cov[0][0].max(cov[1][1])).sqrt();
    rep.distinct(("g2d", F::NAME, case));
    for _ in 0..8 {
        let x = [q(mean[0] + sd * 3.0 * g.normal()), q(mean[1] + sd * 3.0 * g.normal())];
        let xs = [F::of(x[0]), F::of(x[1])];
        rep.eval();
        let (norm, unnorm) = match guard(|| (Normalized::logp(&t, &xs), Target::unnorm_logp(&t, &xs))) {
            Ok(v) => (v.0.to_f64().unwrap(), v.1.to_f64().unwrap()),
            Err(m) => {
                rep.violation(&format!("{sig} panic"), mon, case, json!({"panic": m}));
                return;
            }
        };
        let (_, det) = r.inv();
        let konst = -(2.0 * std::f64::consts::PI).ln() - 0.5 * det.ln();
        let ref_norm = r.logp(&x);
        let ref_un = ref_norm - konst;
        // sensitivity: the largest change over several one-ulp perturbations of all inputs
        let (mut ref_norm_p, mut ref_un_p) = (ref_norm, ref_un);
        for _ in 0..6 {
            let rp = Gauss2Ref {
                mean: [jig(g, mean[0], F::eps()), jig(g, mean[1], F::eps())],
                cov: [[jig(g, cov[0][0], F::eps()), jig(g, cov[0][1], F::eps())], [jig(g, cov[1][0], F::eps()), jig(g, cov[1][1], F::eps())]],
            };
            let xp = [jig(g, x[0], F::eps()), jig(g, x[1], F::eps())];
            let (_, detp) = rp.inv();
            let n_p = rp.logp(&xp);
            let u_p = n_p - (-(2.0 * std::f64::consts::PI).ln() - 0.5 * detp.ln());
            if (n_p - ref_norm).abs() > (ref_norm_p - ref_norm).abs() {
                ref_norm_p = n_p;
            }
            if (u_p - ref_un).abs() > (ref_un_p - ref_un).abs() {
                ref_un_p = u_p;
            }
        }
        // plus the a-priori rounding bound of evaluating d^T P d with P = adj(cov)/det in F:
        // relative error of det ~ eps (|ad|+|bc|)/|det|, of the sum ~ eps sum|P_ij d_i d_j|
        let (pm, detv) = r.inv();
        let dd = [x[0] - mean[0], x[1] - mean[1]];
        let quad_abs = (pm[0][0] * dd[0] * dd[0]).abs() + 2.0 * (pm[0][1] * dd[0] * dd[1]).abs() + (pm[1][1] * dd[1] * dd[1]).abs();
        let det_amp = ((cov[0][0] * cov[1][1]).abs() + (cov[0][1] * cov[1][0]).abs()) / detv.abs();
        let apriori = 16.0 * F::eps() * quad_abs * (1.0 + det_amp);
        let t_n = tol(ref_norm, ref_norm_p, F::eps()) + apriori + 8.0 * F::eps() * det_amp;
        let t_u = tol(ref_un, ref_un_p, F::eps()) + apriori;
        rep.max("gaussian2d_error_over_tol", ((norm - ref_norm).abs() / t_n).max((unnorm - ref_un).abs() / t_u));
        let d = json!({"mean": mean, "cov": cov, "x": x, "normalized": norm, "ref_normalized": ref_norm, "unnorm": unnorm, "ref_unnorm": ref_un, "tol": [t_n, t_u]});
        if (norm - ref_norm).abs() > t_n {
            rep.violation(&format!("{sig} normalized-logp"), mon, case, d);
            return;
        }
        if (unnorm - ref_un).abs() > t_u {
            rep.violation(&format!("{sig} unnorm-logp"), mon, case, d);
            return;
        }
        if ((norm - unnorm) - konst).abs() > t_n + t_u {
            rep.violation(&format!("{sig} normalised-and-unnormalised-do-not-differ-by-the-constant"), mon, case, d);
            return;
        }
        rep.held();
        if case < 2 {
            rep.sample(json!({"monitor": mon, "type": F::NAME, "mean": mean, "cov": cov, "x": x, "normalized": norm, "reference": ref_norm}));
        }
    }
}

/// gradient of a batched target the way HMC computes it
fn batch_grad<T, B, G>(t: &G, pos: Tensor<B, 2>) -> (Vec<f64>, Vec<f64>)
where
    T: num_traits::Float,
    B: AutodiffBackend,
    G: BatchedGradientTarget<T, B>,
{
    let p = pos.detach().require_grad();
    let lp = t.unnorm_logp_batch(p.clone());
    let grads = p.grad(&lp.backward()).unwrap();
    (tv(&lp), grads.to_data().iter::<f64>().collect())
}

#[allow(clippy::too_many_arguments)]
fn check_target<T, B, G, R>(
    rep: &mut Report,
    mon: &str,
    case: u64,
    g: &mut Sm64,
    sig: &str,
    lib: &G,
    reference: &R,
    perturbed: &R,
    points: &[Vec<f64>],
    eps: f64,
    single: bool,
    batched: bool,
    extra_tol: &dyn Fn(&[f64]) -> (f64, f64),
) -> bool
where
    T: num_traits::Float + Element,
    B: AutodiffBackend,
    G: BatchedGradientTarget<T, B> + GradientTarget<T, B>,
    R: RefTarget,
{
    let d = reference.dim();
    let n = points.len();
    // quantise the points to the backend's precision first
    let flat: Vec<f64> = points.iter().flatten().cloned().collect();
    let pos = vt2::<B>(&flat, n, d);
    let qpts: Vec<f64> = tv(&pos);
    // guard of the harness's own formulas: analytic gradient vs central differences of the reference
    for r in 0..n {
        let x = &qpts[r * d..(r + 1) * d];
        let an = reference.grad(x);
        let fd = fd_grad(reference, x);
        for k in 0..d {
            if !close(an[k], fd[k], 1e-4, 1e-5 * (1.0 + an[k].abs())) {
                rep.inconclusive("harness self-check: closed-form gradient disagrees with central differences (steep point)");
                return true;
            }
        }
    }
    let res = guard(|| {
        let b = if batched { Some(batch_grad::<T, B, G>(lib, pos.clone())) } else { None };
        let s: Vec<(f64, Vec<f64>)> = if single {
            (0..n)
                .map(|r| {
                    let x = vt1::<B>(&qpts[r * d..(r + 1) * d]);
                    let (lp, gr) = GradientTarget::<T, B>::unnorm_logp_and_grad(lib, x);
                    (tv(&lp)[0], tv(&gr))
                })
                .collect()
        } else {
            vec![]
        };
        (b, s)
    });
    rep.eval();
    let (b, s) = match res {
        Ok(x) => x,
        Err(m) => {
            rep.violation(&format!("{sig} panic"), mon, case, json!({"panic": m, "points": points}));
            return false;
        }
    };
    for r in 0..n {
        let x = &qpts[r * d..(r + 1) * d];
        let (rl, rg) = (reference.logp(x), reference.grad(x));
        let (mut pl, mut pg) = (rl, rg.clone());
        for _ in 0..4 {
            let xp: Vec<f64> = x.iter().map(|v| jig(g, *v, eps)).collect();
            let (l, gr) = (perturbed.logp(&xp), perturbed.grad(&xp));
            if (l - rl).abs() > (pl - rl).abs() {
                pl = l;
            }
            for k in 0..d {
                if (gr[k] - rg[k]).abs() > (pg[k] - rg[k]).abs() {
                    pg[k] = gr[k];
                }
            }
        }
        let (extra_l, extra_g) = extra_tol(x);
        let tl = tol(rl, pl, eps) + extra_l;
        let mut candidates: Vec<(&str, f64, &[f64])> = vec![];
        if let Some((lps, grs)) = &b {
            candidates.push(("batched", lps[r], &grs[r * d..(r + 1) * d]));
        }
        if single {
            candidates.push(("single-point", s[r].0, &s[r].1));
        }
        for (which, lp, gr) in candidates {
            rep.max("logp_error_over_tol", (lp - rl).abs() / tl);
            // (written so that a NaN on one side only is a mismatch, not a pass)
            if !((lp - rl).abs() <= tl) && !(lp.is_nan() && rl.is_nan()) && !(lp == rl) {
                rep.violation(&format!("{sig} {which} log-density"), mon, case, json!({"x": x, "got": fj(lp), "reference": fj(rl), "tol": tl}));
                return false;
            }
            let gscale = rg.iter().map(|v| v.abs()).fold(0.0, f64::max);
            for k in 0..d {
                let tg = 200.0 * (rg[k] - pg[k]).abs() + 256.0 * eps * gscale + 64.0 * eps + extra_g;
                rep.max("gradient_error_over_tol", (gr[k] - rg[k]).abs() / tg);
                if !((gr[k] - rg[k]).abs() <= tg) && !(gr[k].is_nan() && rg[k].is_nan()) && !(gr[k] == rg[k]) {
                    rep.violation(&format!("{sig} {which} gradient"), mon, case,
                        json!({"x": x, "coordinate": k, "got": fj(gr[k]), "reference": fj(rg[k]), "tol": tg}));
                    return false;
                }
            }
            rep.held();
        }
    }
    true
}

fn diffable_case<T, B>(rep: &mut Report, case: u64, g: &mut Sm64, tname: &str, bname: &str, eps: f64)
where
    T: Fl + burn::tensor::ElementConversion + Element + num_traits::FloatConst,
    B: AutodiffBackend,
{
    let mon = "targets";
    let q = |x: f64| -> f64 { crate::util::Bits::as_f64(&T::of(x)) };
    let cov = random_cov(g);
    let cov = [[q(cov[0][0]), q(cov[0][1])], [q(cov[0][1]), q(cov[1][1])]];
    // sometimes centred hundreds to thousands of standard deviations away from the origin
    let sd0 = cov[0][0].max(cov[1][1]).sqrt();
    let off = if g.chance(0.3) { g.log_uniform(1e2, 1e4) * sd0 } else { 0.0 };
    let ms = if !(0.05..=50.0).contains(&sd0) { sd0 } else { 1.0 };
    rep.count(&format!("covariance_scale[{}]", if sd0 < 0.05 { "sd<0.05" } else if sd0 > 50.0 { "sd>50" } else { "0.05..50" }));
    let mean = [q(g.uniform(-5.0, 5.0) * ms + off), q(g.uniform(-5.0, 5.0) * ms - off * g.uniform(0.2, 1.0))];
    let lib = DiffableGaussian2D::<T>::new([T::of(mean[0]), T::of(mean[1])], [[T::of(cov[0][0]), T::of(cov[0][1])], [T::of(cov[1][0]), T::of(cov[1][1])]]);
    let r = Gauss2Ref { mean, cov };
    let rp = Gauss2Ref {
        mean: [jig(g, mean[0], eps), jig(g, mean[1], eps)],
        cov: [[jig(g, cov[0][0], eps), jig(g, cov[0][1], eps)], [jig(g, cov[1][0], eps), jig(g, cov[1][1], eps)]],
    };
    let sd = cov[0][0].max(cov[1][1]).sqrt();
    let n = *g.choose(&[1usize, 2, 3, 17, 64]);
    let mut pts: Vec<Vec<f64>> = (0..n).map(|_| vec![mean[0] + 3.0 * sd * g.normal(), mean[1] + 3.0 * sd * g.normal()]).collect();
    // a row sitting exactly on the mean (where a chain started at the mode is), or on one of its coordinates
    if g.chance(0.3) {
        let i = g.below(n);
        pts[i] = vec![mean[0], mean[1]];
        rep.count("batches_with_a_row_exactly_at_the_mean");
    } else if g.chance(0.2) {
        let i = g.below(n);
        pts[i][g.below(2)] = mean[g.below(2).min(1)];
    }
    rep.distinct(("diffable", tname.to_string(), bname.to_string(), n, case));
    let sig = format!("DiffableGaussian2D<{tname}> on {bname}");
    // a-priori rounding bound of d^T P d and P d with P = adj(cov)/det quantised to f32
    let (pm, detv) = r.inv();
    let det_amp = ((cov[0][0] * cov[1][1]).abs() + (cov[0][1] * cov[1][0]).abs()) / detv.abs();
    let extra = move |x: &[f64]| -> (f64, f64) {
        let dd = [x[0] - mean[0], x[1] - mean[1]];
        let quad_abs = (pm[0][0] * dd[0] * dd[0]).abs() + (pm[0][1] * dd[0] * dd[1]).abs() + (pm[1][0] * dd[0] * dd[1]).abs() + (pm[1][1] * dd[1] * dd[1]).abs();
        let g0 = (pm[0][0] * dd[0]).abs() + (pm[0][1] * dd[1]).abs();
        let g1 = (pm[1][0] * dd[0]).abs() + (pm[1][1] * dd[1]).abs();
        (16.0 * eps * quad_abs * (1.0 + det_amp), 16.0 * eps * g0.max(g1) * (1.0 + det_amp))
    };
    if check_target::<T, B, _, _>(rep, mon, case, g, &sig, &lib, &r, &rp, &pts, eps, true, true, &extra) {
        rep.count("diffable_gaussian_cases");
        if case < 16 {
            rep.sample(json!({"monitor": mon, "target": sig, "mean": mean, "cov": cov, "batch": n, "first_point": pts[0], "ref_logp": r.logp(&pts[0]), "ref_grad": r.grad(&pts[0])}));
        }
    }
}

fn rosen_case<T, B>(rep: &mut Report, case: u64, g: &mut Sm64, tname: &str, bname: &str, eps: f64)
where
    T: Fl + Element,
    B: AutodiffBackend,
{
    let mon = "targets";
    let q = |x: f64| -> f64 { crate::util::Bits::as_f64(&T::of(x)) };
    let (a, b) = (q(g.uniform(0.5, 2.0)), q(g.log_uniform(1.0, 100.0)));
    let lib = Rosenbrock2D::<T> { a: T::of(a), b: T::of(b) };
    let r = RosenRef { a, b };
    let rp = RosenRef { a: jig(g, a, eps), b: jig(g, b, eps) };
    let n = *g.choose(&[1usize, 2, 5, 64]);
    let pts: Vec<Vec<f64>> = (0..n).map(|_| vec![g.uniform(-2.0, 2.0), g.uniform(-1.0, 3.0)]).collect();
    rep.distinct(("rosen", tname.to_string(), bname.to_string(), n, case));
    let sig = format!("Rosenbrock2D<{tname}> on {bname}");
    let extra = |_x: &[f64]| (0.0, 0.0);
    if check_target::<T, B, _, _>(rep, mon, case, g, &sig, &lib, &r, &rp, &pts, eps, true, true, &extra) {
        rep.count("rosenbrock2d_cases");
    }
    // RosenbrockND: batched only
    let d = g.range(2, 32);
    let n = *g.choose(&[1usize, 3, 16]);
    let pts: Vec<Vec<f64>> = (0..n).map(|_| (0..d).map(|_| g.uniform(-1.5, 1.5)).collect()).collect();
    let r = RosenNdRef { d };
    let sig = format!("RosenbrockND on {bname}");
    struct NdOnly;
    // RosenbrockND has no GradientTarget impl; wrap it
    struct Wrap(RosenbrockND);
    impl<T2: num_traits::Float + Element, B2: AutodiffBackend> BatchedGradientTarget<T2, B2> for Wrap {
        fn unnorm_logp_batch(&self, positions: Tensor<B2, 2>) -> Tensor<B2, 1> {
            BatchedGradientTarget::<T2, B2>::unnorm_logp_batch(&self.0, positions)
        }
    }
    impl<T2: num_traits::Float + Element, B2: AutodiffBackend> GradientTarget<T2, B2> for Wrap {
        fn unnorm_logp(&self, _position: Tensor<B2, 1>) -> Tensor<B2, 1> {
            unreachable!()
        }
    }
    let _ = NdOnly;
    if check_target::<T, B, _, _>(rep, mon, case, g, &sig, &Wrap(RosenbrockND {}), &r, &r.clone(), &pts, eps, false, true, &|_x: &[f64]| (0.0, 0.0)) {
        rep.count("rosenbrock_nd_cases");
    }
}

fn iso_case<F: Fl + std::ops::AddAssign>(ctx: &Ctx, rep: &mut Report, case: u64, g: &mut Sm64)
where
    StandardNormal: Distribution<F>,
{
    let mon = "isotropic";
    let sig = format!("IsotropicGaussian<{}>", F::NAME);
    let std = F::of(g.log_uniform(1e-3, 1e3)).to_f64().unwrap();
    let d = if g.chance(0.3) { g.range(1, 2) } else { g.range(1, 32) };
    let p = IsotropicGaussian::<F>::new(F::of(std));
    rep.distinct(("iso", F::NAME, d, case));
    let from: Vec<f64> = (0..d).map(|_| F::of(g.normal() * 10.0).to_f64().unwrap()).collect();
    let to: Vec<f64> = from.iter().map(|x| F::of(x + std * 2.0 * g.normal()).to_f64().unwrap()).collect();
    let ff: Vec<F> = from.iter().map(|x| F::of(*x)).collect();
    let tf: Vec<F> = to.iter().map(|x| F::of(*x)).collect();
    rep.eval();
    let (l_ft, l_tf, un) = match guard(|| (p.logp(&ff, &tf), p.logp(&tf, &ff), Target::unnorm_logp(&p, &tf))) {
        Ok(v) => (v.0.to_f64().unwrap(), v.1.to_f64().unwrap(), v.2.to_f64().unwrap()),
        Err(m) => {
            rep.violation(&format!("{sig} panic"), mon, case, json!({"panic": m}));
            return;
        }
    };
    let refl = |std: f64, from: &[f64], to: &[f64]| -> f64 {
        let q: f64 = from.iter().zip(to).map(|(f, t)| (t - f) * (t - f)).sum::<f64>();
        -q / (2.0 * std * std) - d as f64 / 2.0 * (2.0 * std::f64::consts::PI * std * std).ln()
    };
    let r = refl(std, &from, &to);
    // the differences t-f are formed in F: sensitivity from perturbing the endpoints' difference by an ulp of the endpoints
    let stdp = jig(g, std, F::eps());
    let top: Vec<f64> = to.iter().zip(&from).map(|(t, f)| t + (g.f64() - 0.5) * 2.0 * F::eps() * (t.abs().max(f.abs()))).collect();
    let rp = refl(stdp, &from, &top);
    let t = tol(r, rp, F::eps()) + 8.0 * d as f64 * F::eps() * r.abs().max(1.0);
    rep.max("proposal_logp_error_over_tol", (l_ft - r).abs() / t);
    let dj = json!({"std": std, "d": d, "logp(from,to)": l_ft, "logp(to,from)": l_tf, "definition": r, "tol": t});
    if (l_ft - r).abs() > t {
        rep.violation(&format!("{sig} logp-is-not-the-normalised-density-of-N(from,std^2 I)"), mon, case, dj);
        return;
    }
    if (l_ft - l_tf).abs() > t {
        rep.violation(&format!("{sig} logp-not-symmetric"), mon, case, dj);
        return;
    }
    let un_ref = -0.5 * to.iter().map(|x| x * x).sum::<f64>() / (std * std);
    if (un - un_ref).abs() > 64.0 * d as f64 * F::eps() * un_ref.abs() + 1e-30 {
        rep.violation(&format!("{sig} unnorm_logp-as-target"), mon, case, json!({"got": un, "reference": un_ref}));
        return;
    }
    rep.held();
    // the public field std may be reassigned: logp follows it
    {
        let mut p2 = IsotropicGaussian::<F>::new(F::of(std * 3.0));
        let _ = p2.sample(&ff);
        p2.std = F::of(std);
        let l2 = p2.logp(&ff, &tf).to_f64().unwrap();
        if (l2 - l_ft).abs() > 1e-12 * (1.0 + l_ft.abs()) {
            rep.violation(&format!("{sig} logp-ignores-reassigned-std"), mon, case, json!({"std": std, "logp_fresh": l_ft, "logp_after_reassigning_std": l2}));
            return;
        }
    }
    if case < 2 {
        rep.sample(json!({"monitor": mon, "type": F::NAME, "std": std, "d": d, "logp(from,to)": l_ft, "definition": r}));
    }
    // normalisation by quadrature, independent of the closed form (D = 1, 2)
    if d <= 2 && case % 4 == 0 {
        let m = 400;
        let h = 16.0 * std / m as f64;
        let mut total = 0.0;
        if d == 1 {
            for i in 0..=m {
                let x = from[0] - 8.0 * std + i as f64 * h;
                let w = if i == 0 || i == m { 0.5 } else { 1.0 };
                total += w * p.logp(&ff, &[F::of(x)]).to_f64().unwrap().exp() * h;
            }
        } else {
            for i in 0..=m {
                for j in 0..=m {
                    let x = from[0] - 8.0 * std + i as f64 * h;
                    let y = from[1] - 8.0 * std + j as f64 * h;
                    let w = (if i == 0 || i == m { 0.5 } else { 1.0 }) * (if j == 0 || j == m { 0.5 } else { 1.0 });
                    total += w * p.logp(&ff, &[F::of(x), F::of(y)]).to_f64().unwrap().exp() * h * h;
                }
            }
        }
        rep.evals(1);
        rep.max("quadrature_abs_error", (total - 1.0).abs());
        // f32 endpoints near `from` with tiny std lose the difference: only demand it where t-f is resolvable
        let resolvable = std > 1e3 * F::eps() * from.iter().map(|x| x.abs()).fold(0.0, f64::max);
        if resolvable {
            if (total - 1.0).abs() > 2e-3 {
                rep.violation(&format!("{sig} density-does-not-integrate-to-one"), mon, case, json!({"std": std, "d": d, "integral": total}));
                return;
            }
            rep.held();
            rep.count("quadratures");
        } else {
            rep.inconclusive("quadrature skipped: std below the f32 resolution of the centre");
        }
    }
    // draws: reproducible under set_seed, mean 0 / variance std^2 / KS
    if case % 8 == 0 {
        // (structurally special seeds included: 0, 1, u64::MAX, 2^63)
        let seed = match (case / 8) % 6 {
            0 => 0,
            1 => u64::MAX,
            2 => 1u64 << 63,
            _ => g.next_u64(),
        };
        let n = if ctx.thorough { 40_000 } else { 12_000 };
        let mut p1 = IsotropicGaussian::<F>::new(F::of(std)).set_seed(seed);
        // the second one has been used before it is seeded: set_seed must make it equivalent all the same
        let mut p2 = IsotropicGaussian::<F>::new(F::of(std));
        for _ in 0..(case % 5) {
            let _ = p2.sample(&vec![F::zero(); 1 + (case % 7) as usize]);
        }
        let mut p2 = p2.set_seed(seed);
        let zero = vec![F::zero(); d.min(4)];
        let dd = zero.len();
        let mut pool = vec![];
        for i in 0..n / dd {
            let a = p1.sample(&zero);
            let b = p2.sample(&zero);
            if !bits_eq(&a, &b) {
                rep.violation(&format!("{sig} set_seed-does-not-make-draws-reproducible"), mon, case, json!({"draw": i}));
                return;
            }
            pool.extend(a.iter().map(|x| x.to_f64().unwrap() / std));
        }
        rep.evals((n / dd) as u64);
        let m = pool.len() as f64;
        let mean = pool.iter().sum::<f64>() / m;
        let var = pool.iter().map(|x| x * x).sum::<f64>() / m;
        let z_mean = mean * m.sqrt();
        let z_var = (var - 1.0) / (2.0 / m).sqrt();
        let ks = ks_stat(&mut pool, phi);
        rep.max("proposal_noise_max_abs_z", z_mean.abs().max(z_var.abs()));
        rep.max("proposal_noise_max_ks", ks);
        if z_mean.abs() > 6.5 || z_var.abs() > 6.5 || ks > 3.6 {
            rep.violation(&format!("{sig} sample-noise-is-not-N(0,std^2)"), mon, case, json!({"std": std, "z_mean": z_mean, "z_var": z_var, "ks": ks}));
            return;
        }
        // sample is centred at `from`
        let centre: Vec<F> = (0..dd).map(|k| F::of(100.0 + k as f64)).collect();
        let s = p1.sample(&centre);
        if s.len() != dd || s.iter().zip(&centre).any(|(a, c)| (a.to_f64().unwrap() - c.to_f64().unwrap()).abs() > 10.0 * std + 1e-3) {
            rep.violation(&format!("{sig} sample-not-centred-at-from"), mon, case, json!({"std": std}));
            return;
        }
        rep.held();
        rep.count("proposal_noise_tests");
    }
}

/// The proposal "draws from N(from, std^2 I)": every draw is a finite number, for every seed.
/// Seeding and drawing are cheap, so millions of seeds are tried (a generator that maps one
/// uniform word in 2^24 to an infinite deviate shows up here).
fn finite_case<F: Fl + std::ops::AddAssign>(ctx: &Ctx, rep: &mut Report, case: u64, g: &mut Sm64)
where
    IsotropicGaussian<F>: Proposal<F, F>,
{
    let mon = "isotropic";
    let budget: u64 = if ctx.thorough { 1 << 22 } else { 1 << 21 };
    let base = if g.bool() { 0 } else { g.next_u64() };
    let std = F::of(g.log_uniform(1e-3, 1e3));
    let from = vec![F::zero(); 8];
    let mut worst = 0.0f64;
    for k in 0..budget {
        let seed = base.wrapping_add(k);
        let mut p = IsotropicGaussian::<F>::new(std).set_seed(seed);
        for rep_i in 0..3 {
            let y = p.sample(&from);
            for v in &y {
                let z = (v.to_f64().unwrap() / std.to_f64().unwrap()).abs();
                if !(z < 1e6) {
                    rep.violation(&format!("IsotropicGaussian<{}> sample-returns-a-non-finite-or-absurd-value", F::NAME), mon, case,
                        json!({"seed": seed, "std": std.to_f64().unwrap(), "call": rep_i, "sample": y.iter().map(|x| fj(x.to_f64().unwrap())).collect::<Vec<_>>()}));
                    return;
                }
                worst = worst.max(z);
            }
        }
    }
    rep.evals(budget);
    rep.count_n("proposal_seeds_scanned_for_non_finite_draws", budget);
    rep.max("largest_standardised_draw_seen", worst);
    rep.held();
    rep.distinct(("finite", F::NAME, base));
}

pub fn run(ctx: &Ctx, rep: &mut Report) {
    for c in ctx.case_ids("finite", 4, 64) {
        let mut g = ctx.rng("finite", c);
        if c % 2 == 0 {
            finite_case::<f64>(ctx, rep, c, &mut g);
        } else {
            finite_case::<f32>(ctx, rep, c, &mut g);
        }
    }
    let e32 = f32::EPSILON as f64;
    // (the tensor-based targets deliver f32-level accuracy on every backend: the statement's own
    // tolerance; burn's from_floats quantises their constants to f32)
    for c in ctx.case_ids("gaussian2d", 600, 600_000) {
        let mut g = ctx.rng("gaussian2d", c);
        if c % 2 == 0 {
            gaussian2d_case::<f64>(rep, c, &mut g);
        } else {
            gaussian2d_case::<f32>(rep, c, &mut g);
        }
    }
    for c in ctx.case_ids("targets", 400, 300_000) {
        let mut g = ctx.rng("targets", c);
        match c % 8 {
            0 => diffable_case::<f32, B32>(rep, c, &mut g, "f32", "NdArray<f32>", e32),
            1 => diffable_case::<f64, B64>(rep, c, &mut g, "f64", "NdArray<f64>", e32),
            2 => diffable_case::<f64, B32>(rep, c, &mut g, "f64", "NdArray<f32>", e32),
            3 => diffable_case::<f32, B64>(rep, c, &mut g, "f32", "NdArray<f64>", e32),
            4 => rosen_case::<f32, B32>(rep, c, &mut g, "f32", "NdArray<f32>", e32),
            5 => rosen_case::<f64, B64>(rep, c, &mut g, "f64", "NdArray<f64>", e32),
            6 => rosen_case::<f64, B32>(rep, c, &mut g, "f64", "NdArray<f32>", e32),
            _ => rosen_case::<f32, B64>(rep, c, &mut g, "f32", "NdArray<f64>", e32),
        }
    }
    for c in ctx.case_ids("isotropic", 1600, 1_000_000) {
        let mut g = ctx.rng("isotropic", c);
        if c % 2 == 0 {
            iso_case::<f64>(ctx, rep, c, &mut g);
        } else {
            iso_case::<f32>(ctx, rep, c, &mut g);
        }
    }
}
