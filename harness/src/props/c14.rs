//! C14 — no sampler ever moves to a zero-density, NaN-density or non-finite state; hostile
//! candidates are rejected with the previous state kept bit for bit; no panic, no hang.
//!
//! Invariant monitor on every state returned by step()/run(), evaluated with the harness's own
//! f64 copy of the target. Steps whose acceptance draw is exactly 0 are excluded (the statement's
//! exception; those are injected and judged in C01).

use crate::props::c01::Fl;
use crate::props::c02::Scalar;
use crate::props::c03::parse;
use crate::rngcraft::CraftFloat;
use crate::targets::*;
use crate::util::*;
use burn::backend::{Autodiff, NdArray};
use burn::tensor::backend::AutodiffBackend;
use mini_mcmc::core::MarkovChain;
use mini_mcmc::distributions::{IsotropicGaussian, Proposal, Target};
use mini_mcmc::hmc::HMC;
use mini_mcmc::metropolis_hastings::MHMarkovChain;
use mini_mcmc::nuts::NUTSChain;
use mini_mcmc::verif as hook;
use rand::rngs::SmallRng;
use rand::{Rng, SeedableRng};
use rand_distr::{Distribution, Exp1, StandardNormal, StandardUniform};
use serde_json::json;

type B32 = Autodiff<NdArray<f32>>;
type B64 = Autodiff<NdArray<f64>>;

/// true if the harness's own copy calls the state bad; None if it is too close to the support
/// boundary to be classified at the backend's resolution
fn bad_state(h: &Hostile, x: &[f64], res: f64) -> Option<bool> {
    let lp = h.logp64(x);
    let bad = lp.is_nan() || lp == f64::NEG_INFINITY || x.iter().any(|v| !v.is_finite());
    if bad && x.iter().all(|v| v.is_finite()) && h.boundary_margin(x).abs() < 64.0 * res {
        return None;
    }
    Some(bad)
}

/// Target<F,F> view of a hostile target (closed-form, evaluated in F)
#[derive(Clone, Debug)]
struct HostileMh {
    h: Hostile,
}
impl<F: Fl> Target<F, F> for HostileMh {
    fn unnorm_logp(&self, position: &[F]) -> F {
        let x: Vec<f64> = position.iter().map(|v| v.to_f64().unwrap()).collect();
        F::of(self.h.logp64(&x))
    }
}

/// proposal that sometimes produces non-finite coordinates or jumps far out
#[derive(Clone, Debug)]
struct WildProposal<F> {
    rng: SmallRng,
    scale: F,
}
impl<F: Fl> Proposal<F, F> for WildProposal<F>
where
    StandardNormal: Distribution<F>,
{
    fn sample(&mut self, current: &[F]) -> Vec<F> {
        let kind = self.rng.random_range(0..10);
        current
            .iter()
            .map(|x| {
                let z: F = self.rng.sample(StandardNormal);
                match kind {
                    0 => F::infinity(),
                    1 => F::nan(),
                    2 => *x + F::of(1e30) * z,
                    3 => F::neg_infinity(),
                    _ => *x + self.scale * z,
                }
            })
            .collect()
    }
    fn logp(&self, _from: &[F], _to: &[F]) -> F {
        F::zero() // symmetric up to the wild moves, which are never reversible anyway
    }
    fn set_seed(mut self, seed: u64) -> Self {
        self.rng = SmallRng::seed_from_u64(seed);
        self
    }
}

fn mh_case<F: Fl + std::ops::AddAssign>(ctx: &Ctx, rep: &mut Report, case: u64, g: &mut Sm64)
where
    StandardUniform: Distribution<F>,
    StandardNormal: Distribution<F>,
{
    let mon = "mh";
    let kind = g.below(6) as u8;
    let d = g.range(1, 3);
    let h = Hostile { kind, d, p: g.uniform(0.8, 2.5) };
    let start: Vec<F> = h.start(g).iter().map(|x| F::of(*x)).collect();
    let n_steps = if ctx.thorough { 4000 } else { 1200 };
    let seed = g.next_u64();
    let wild = g.chance(0.4);
    let sig = format!("MH target={}", h.name());
    let cfg = json!({"target": h.name(), "F": F::NAME, "dim": d, "seed": seed, "wild_proposal": wild});
    rep.distinct(("mh", kind, F::NAME, d, wild, case));
    let logp_of = |s: &[F]| h.logp64(&s.iter().map(|v| v.to_f64().unwrap()).collect::<Vec<_>>());
    let l0 = F::of(logp_of(&start)).to_f64().unwrap();
    if !l0.is_finite() {
        rep.inconclusive("generated start has non-finite density in F");
        return;
    }
    macro_rules! drive {
        ($prop:expr) => {{
            let mut chain: MHMarkovChain<F, F, HostileMh, _> = MHMarkovChain::new(HostileMh { h: h.clone() }, $prop, start.clone());
            chain.rng = SmallRng::seed_from_u64(seed);
            for step in 0..n_steps {
                let before = chain.current_state.clone();
                // occasionally inject the extreme draws next to zero (not zero itself: excluded by the statement)
                if step % 97 == 5 {
                    chain.rng = F::craft(1 + (step as u64 % 3), seed ^ step as u64);
                }
                let u: F = F::peek(&chain.rng);
                let r = guard(|| chain.step().clone());
                rep.eval();
                let out = match r {
                    Ok(o) => o,
                    Err(m) => {
                        rep.violation(&format!("{sig} panic"), mon, case, json!({"cfg": cfg, "step": step, "panic": m, "state": f64_vec(&before)}));
                        return;
                    }
                };
                if u.to_f64().unwrap() == 0.0 {
                    rep.count("steps_excluded_u_eq_0");
                    continue;
                }
                let lp = F::of(logp_of(&out)).to_f64().unwrap();
                let verdict = bad_state(&h, &f64_vec(&out), F::eps());
                if verdict.is_none() {
                    rep.inconclusive("state within rounding distance of the support boundary");
                    continue;
                }
                if verdict == Some(true) {
                    rep.violation(&format!("{sig} moved-to-bad-state"), mon, case,
                        json!({"cfg": cfg, "step": step, "from": f64_vec(&before), "to": f64_vec(&out), "logp_of_new_state": fj(lp), "u": fj(u.to_f64().unwrap())}));
                    return;
                }
                if !bits_eq(&out, &before) {
                    rep.count("mh_moves");
                }
                rep.held();
            }
            rep.sample(json!({"cfg": cfg, "final_state": f64_vec(&chain.current_state)}));
        }};
    }
    if wild {
        drive!(WildProposal { rng: SmallRng::seed_from_u64(seed ^ 7), scale: F::of(g.log_uniform(0.3, 3.0)) });
    } else {
        drive!(IsotropicGaussian::<F>::new(F::of(g.log_uniform(0.5, 20.0))).set_seed(seed ^ 9));
    }
    rep.count("mh_chains");
}

fn hmc_case<T, B>(ctx: &Ctx, rep: &mut Report, case: u64, g: &mut Sm64, bname: &str)
where
    T: Scalar,
    B: AutodiffBackend,
    StandardNormal: Distribution<T>,
    StandardUniform: Distribution<T>,
{
    let mon = "hmc";
    let kind = g.below(6) as u8;
    let d = g.range(1, 4);
    let h = Hostile { kind, d, p: g.uniform(0.8, 2.5) };
    let n_chains = g.range(1, 16);
    let l = g.range(1, 64);
    let step = T::of(match g.below(5) {
        0 => g.log_uniform(1.0, 1e30),
        1 => g.log_uniform(1e-3, 1e-1),
        _ => g.log_uniform(0.05, 3.0),
    });
    let seed = g.next_u64();
    let starts: Vec<Vec<f64>> = (0..n_chains).map(|_| h.start(g)).collect();
    let sig = format!("HMC target={}", h.name());
    let cfg = json!({"target": h.name(), "T": T::NAME, "backend": bname, "dim": d, "n_chains": n_chains, "L": l, "step_size": step.f(), "seed": seed});
    rep.distinct(("hmc", kind, T::NAME, bname.to_string(), d, n_chains, l, case));
    let inits: Vec<Vec<T>> = starts.iter().map(|r| r.iter().map(|x| T::of(*x)).collect()).collect();
    // starts must have finite density as the backend sees them
    let q = |x: f64| if bname.contains("f32") || T::NAME == "f32" { (x as f32) as f64 } else { x };
    if starts.iter().any(|s| !h.logp64(&s.iter().map(|x| q(*x)).collect::<Vec<_>>()).is_finite()) {
        rep.inconclusive("generated start has non-finite density in the backend's precision");
        return;
    }
    let mut sampler = HMC::<T, B, Hostile>::new(h.clone(), inits, step, l).set_seed(seed);
    let n_steps = if ctx.thorough { 40 } else { 15 };
    let mut excluded = vec![false; n_chains];
    for s in 0..n_steps {
        let before = tv(&sampler.positions);
        hook::enable();
        reset_budget(1 << 12);
        let r = guard(|| sampler.step());
        reset_budget(u64::MAX);
        let ev = hook::take();
        hook::disable();
        rep.eval();
        if let Err(m) = r {
            rep.violation(&format!("{sig} panic"), mon, case, json!({"cfg": cfg, "step": s, "panic": m}));
            return;
        }
        let after = tv(&sampler.positions);
        let (uniforms, logp_after) = match ev.first() {
            Some(hook::Event::HmcStep { uniforms, logp_after, .. }) => (uniforms.clone(), logp_after.clone()),
            _ => {
                rep.inconclusive("hook event HmcStep not emitted");
                return;
            }
        };
        for row in 0..n_chains {
            if uniforms[row] == 0.0 {
                excluded[row] = true; // the statement's exception; the row may sit anywhere from now on
                rep.count("rows_excluded_u_eq_0");
            }
            if excluded[row] {
                continue;
            }
            let x = &after[row * d..(row + 1) * d];
            let lp = h.logp64(x);
            if !logp_after[row].is_finite() {
                rep.count("hmc_hostile_candidates");
            }
            let res = if bname.contains("f32") { f32::EPSILON as f64 } else { f64::EPSILON };
            let verdict = bad_state(&h, x, res);
            if verdict.is_none() {
                rep.inconclusive("state within rounding distance of the support boundary");
                continue;
            }
            if verdict == Some(true) {
                rep.violation(&format!("{sig} moved-to-bad-state"), mon, case,
                    json!({"cfg": cfg, "step": s, "row": row, "from": &before[row * d..(row + 1) * d], "to": fjv(x), "logp_of_new_state": fj(lp),
                    "u": uniforms[row], "candidate_logp_seen_by_sampler": fj(logp_after[row])}));
                return;
            }
            if !logp_after[row].is_finite() && !bits_eq(x, &before[row * d..(row + 1) * d]) {
                rep.violation(&format!("{sig} state-altered-on-rejected-hostile-candidate"), mon, case,
                    json!({"cfg": cfg, "step": s, "row": row, "from": &before[row * d..(row + 1) * d], "to": fjv(x)}));
                return;
            }
            rep.held();
        }
    }
    rep.count("hmc_batches");
    rep.sample(json!({"cfg": cfg, "final_positions_head": fjv(&tv(&sampler.positions)[..d])}));
}

fn nuts_case<T, B>(ctx: &Ctx, rep: &mut Report, case: u64, g: &mut Sm64, bname: &str)
where
    T: Scalar,
    B: AutodiffBackend,
    StandardNormal: Distribution<T>,
    StandardUniform: Distribution<T>,
    Exp1: Distribution<T>,
{
    let mon = "nuts";
    let kind = g.below(6) as u8;
    let d = g.range(1, 3);
    let h = Hostile { kind, d, p: g.uniform(0.8, 2.5) };
    let near_boundary = g.chance(0.4);
    let mut start = h.start(g);
    if near_boundary {
        match kind {
            0 => start[0] = g.log_uniform(1e-6, 1e-2),
            1 => start[0] = g.log_uniform(1e-6, 1e-2),
            2 => start[0] = h.p * (1.0 - g.log_uniform(1e-6, 1e-2)),
            3 => {
                let n = start.iter().map(|a| a * a).sum::<f64>().sqrt().max(1e-9);
                let r = h.p * (1.0 - g.log_uniform(1e-5, 1e-2));
                start = start.iter().map(|a| a / n * r).collect();
            }
            4 => start[0] = g.log_uniform(1e-8, 1e-3),
            _ => start[0] = 3.0,
        }
    }
    let q = |x: f64| if bname.contains("f32") || T::NAME == "f32" { (x as f32) as f64 } else { x };
    let start: Vec<f64> = start.iter().map(|x| q(*x)).collect();
    if !h.logp64(&start).is_finite() {
        rep.inconclusive("generated start has non-finite density in the backend's precision");
        return;
    }
    let seed = g.next_u64();
    let n_discard = *g.choose(&[0usize, 1, 5, 30, 200]);
    let n_discard = if n_discard == 200 && !ctx.thorough { 60 } else { n_discard };
    let n_collect = g.range(2, 30);
    let delta = T::of(g.uniform(0.6, 0.95));
    let sig = format!("NUTS target={}", h.name());
    let cfg = json!({"target": h.name(), "T": T::NAME, "backend": bname, "dim": d, "start": start, "near_boundary": near_boundary, "seed": seed,
        "n_collect": n_collect, "n_discard": n_discard});
    rep.distinct(("nuts", kind, T::NAME, bname.to_string(), d, n_discard, near_boundary, case));
    let init: Vec<T> = start.iter().map(|x| T::of(*x)).collect();
    // phase 1: initialisation only (find_reasonable_epsilon meets non-finite first leapfrogs):
    // bounded by a logical-step budget, so a runaway halving/doubling loop is a verdict, not a timeout
    let mut chain = NUTSChain::<T, B, Hostile>::new(h.clone(), init.clone(), delta).set_seed(seed);
    reset_budget(1 << 13);
    let r0 = guard(|| {
        let _ = chain.run(1, 0);
    });
    let used = evals();
    reset_budget(u64::MAX);
    rep.eval();
    if let Err(m) = r0 {
        if m.contains(BUDGET_MSG) {
            rep.violation(&format!("{sig} hang: step-size initialisation exceeded 8192 target evaluations"), mon, case, json!({"cfg": cfg}));
        } else {
            rep.violation(&format!("{sig} panic in initialisation"), mon, case, json!({"cfg": cfg, "panic": m}));
        }
        return;
    }
    rep.max("max_target_evaluations_in_step_size_initialisation", used as f64);
    let eps0 = chain.verif_adapt_state().1.f();
    if !(eps0 > 0.0 && eps0.is_finite()) {
        rep.violation(&format!("{sig} initial-step-size-not-positive-and-finite"), mon, case, json!({"cfg": cfg, "eps0": fj(eps0)}));
        return;
    }
    // phase 2: a fresh, identically seeded chain runs for real
    let mut chain = NUTSChain::<T, B, Hostile>::new(h.clone(), init, delta).set_seed(seed);
    hook::enable();
    reset_budget(1 << 18);
    let r = guard(|| tv(&chain.run(n_collect, n_discard)));
    reset_budget(u64::MAX);
    let events = hook::take();
    hook::disable();
    let traces = parse(&events);
    rep.evals(traces.len() as u64);
    let rows = match r {
        Ok(v) => v,
        Err(m) => {
            if m.contains(BUDGET_MSG) {
                // tree depth is unbounded in the algorithm and slowly confining targets (the cusp) have
                // very long orbits: only the initialisation phase above has a sound logical bound
                rep.inconclusive("target-evaluation budget (2^18 per run) exhausted: long trajectories are legitimate");
            } else {
                rep.violation(&format!("{sig} panic"), mon, case, json!({"cfg": cfg, "panic": m}));
            }
            return;
        }
    };
    let hostile_leaves = traces.iter().map(|t| t.leaves.iter().filter(|l| !l.0.is_finite()).count()).sum::<usize>();
    rep.count_n("nuts_hostile_leaves", hostile_leaves as u64);
    for (k, x) in rows.chunks(d).enumerate() {
        let lp = h.logp64(x);
        let res = if bname.contains("f32") { f32::EPSILON as f64 } else { f64::EPSILON };
        match bad_state(&h, x, res) {
            None => rep.inconclusive("state within rounding distance of the support boundary"),
            Some(true) => {
                rep.violation(&format!("{sig} moved-to-bad-state"), mon, case, json!({"cfg": cfg, "row": k, "state": fjv(x), "logp": fj(lp)}));
                return;
            }
            Some(false) => rep.held(),
        }
    }
    for t in &traces {
        let lp = h.logp64(&t.next);
        let res = if bname.contains("f32") { f32::EPSILON as f64 } else { f64::EPSILON };
        if bad_state(&h, &t.next, res) == Some(true) {
            rep.violation(&format!("{sig} moved-to-bad-state"), mon, case, json!({"cfg": cfg, "m": t.m, "state": fjv(&t.next), "logp": fj(lp)}));
            return;
        }
    }
    rep.count("nuts_chains");
    rep.sample(json!({"cfg": cfg, "eps0": eps0, "transitions": traces.len(), "hostile_leaves": hostile_leaves}));
}

/// The smallest non-zero acceptance draw (f32: 2^-24, ln u = -16.6) must still reject a
/// zero-density candidate. Seeds are searched for which the sampler's generator yields exactly that
/// uniform for some row of a 32-chain batch whose large steps mostly leave the support; the search
/// only steers (it assumes "n*d normals, then n uniforms"), the oracle reads the uniforms from the hook.
fn hmc_rare_draw_case(ctx: &Ctx, rep: &mut Report, case: u64, g: &mut Sm64) {
    use rand::{Rng, SeedableRng};
    let mon = "hmc";
    let (n_chains, d) = (32usize, 1usize);
    let h = Hostile { kind: if case % 2 == 0 { 0 } else { 2 }, d, p: 1.5 };
    let tiny = f32::EPSILON / 2.0; // 2^-24: the smallest non-zero value of the f32 uniform generator
    let base = g.next_u64() >> 8;
    let budget = if ctx.thorough { 1u64 << 23 } else { 1u64 << 22 };
    let mut found = None;
    for k in 0..budget {
        let s = base.wrapping_add(k);
        let mut r = SmallRng::seed_from_u64(s);
        for _ in 0..n_chains * d {
            let _: f32 = r.sample(StandardNormal);
        }
        if (0..n_chains).any(|_| r.random::<f32>() == tiny) {
            found = Some(s);
            break;
        }
    }
    let Some(seed) = found else {
        rep.inconclusive("no seed with an acceptance uniform of exactly 2^-24 found in the scan budget");
        return;
    };
    let sig = format!("HMC target={}", h.name());
    let step = 4.0f32;
    let starts: Vec<Vec<f32>> = (0..n_chains).map(|i| vec![0.2 + 0.03 * i as f32]).collect();
    let cfg = json!({"target": h.name(), "T": "f32", "backend": "NdArray<f32>", "dim": d, "n_chains": n_chains, "L": 1, "step_size": step, "seed": seed, "mode": "smallest non-zero acceptance draw"});
    let mut sampler = HMC::<f32, B32, Hostile>::new(h.clone(), starts, step, 1).set_seed(seed);
    let before = tv(&sampler.positions);
    hook::enable();
    let r = guard(|| sampler.step());
    let ev = hook::take();
    hook::disable();
    rep.eval();
    if let Err(m) = r {
        rep.violation(&format!("{sig} panic"), mon, case, json!({"cfg": cfg, "panic": m}));
        return;
    }
    let after = tv(&sampler.positions);
    let (uniforms, logp_after) = match ev.first() {
        Some(hook::Event::HmcStep { uniforms, logp_after, .. }) => (uniforms.clone(), logp_after.clone()),
        _ => {
            rep.inconclusive("hook event HmcStep not emitted");
            return;
        }
    };
    for row in 0..n_chains {
        if uniforms[row] == 0.0 {
            continue; // the statement's exception
        }
        if uniforms[row] == tiny as f64 {
            rep.count(if logp_after[row].is_finite() { "rows_with_smallest_nonzero_u" } else { "rows_with_smallest_nonzero_u_and_zero_density_candidate" });
        }
        let x = &after[row..row + 1];
        match bad_state(&h, x, f32::EPSILON as f64) {
            None => rep.inconclusive("state within rounding distance of the support boundary"),
            Some(true) => {
                rep.violation(&format!("{sig} moved-to-bad-state"), mon, case,
                    json!({"cfg": cfg, "row": row, "from": &before[row..row + 1], "to": fjv(x), "u": uniforms[row], "candidate_logp_seen_by_sampler": fj(logp_after[row])}));
                return;
            }
            Some(false) => rep.held(),
        }
    }
    rep.distinct(("hmc-raredraw", seed, h.kind));
}

pub fn run(ctx: &Ctx, rep: &mut Report) {
    for c in ctx.case_ids("hmc-raredraw", 6, 64) {
        let mut g = ctx.rng("hmc-raredraw", c);
        hmc_rare_draw_case(ctx, rep, c, &mut g);
    }
    for c in ctx.case_ids("mh", 200, 16_000) {
        let mut g = ctx.rng("mh", c);
        if c % 2 == 0 {
            mh_case::<f64>(ctx, rep, c, &mut g);
        } else {
            mh_case::<f32>(ctx, rep, c, &mut g);
        }
    }
    for c in ctx.case_ids("hmc", 240, 24_000) {
        let mut g = ctx.rng("hmc", c);
        match c % 4 {
            0 | 2 => hmc_case::<f64, B64>(ctx, rep, c, &mut g, "NdArray<f64>"),
            1 => hmc_case::<f32, B32>(ctx, rep, c, &mut g, "NdArray<f32>"),
            _ => hmc_case::<f32, B64>(ctx, rep, c, &mut g, "NdArray<f64>"),
        }
    }
    for c in ctx.case_ids("nuts", 160, 16_000) {
        let mut g = ctx.rng("nuts", c);
        match c % 4 {
            0 | 2 => nuts_case::<f64, B64>(ctx, rep, c, &mut g, "NdArray<f64>"),
            1 => nuts_case::<f32, B32>(ctx, rep, c, &mut g, "NdArray<f32>"),
            _ => nuts_case::<f32, B64>(ctx, rep, c, &mut g, "NdArray<f64>"),
        }
    }
}
