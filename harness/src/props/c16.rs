//! C16 — Categorical: normalised probabilities, exact logp, samples follow probs, never a
//! zero-probability category. The uniform variate is *injected* through `Categorical::with_rng`
//! (verif hook) with crafted generator states; the delivered variate is read back from a clone.

use crate::props::c01::Fl;
use crate::util::*;
use mini_mcmc::distributions::{Categorical, Discrete, Target};
use rand::rngs::SmallRng;
use rand::SeedableRng;
use rand_distr::{Distribution, StandardUniform};
use serde_json::json;

fn weights(g: &mut Sm64, len: usize) -> Vec<f64> {
    let style = g.below(6);
    let mag = match g.below(4) {
        0 => 1e-30,
        1 => 1e30,
        _ => g.log_uniform(1e-3, 1e3),
    };
    let mut w: Vec<f64> = (0..len)
        .map(|_| match style {
            0 => 1.0,
            1 => g.f64(),
            2 => g.log_uniform(1e-6, 1.0),
            3 => (g.range(1, 9) as f64) / 8.0,
            _ => g.f64() + 0.01,
        })
        .collect();
    // zeros at first / last / interior / runs
    if len > 1 {
        match g.below(7) {
            0 => w[0] = 0.0,
            1 => w[len - 1] = 0.0,
            2 => {
                w[0] = 0.0;
                w[len - 1] = 0.0;
                if len == 2 {
                    w[1] = 1.0;
                }
            }
            3 => {
                let a = g.below(len);
                let b = g.range(a, len - 1);
                for x in w.iter_mut().take(b + 1).skip(a) {
                    *x = 0.0;
                }
            }
            4 => {
                for x in w.iter_mut() {
                    if g.chance(0.5) {
                        *x = 0.0;
                    }
                }
            }
            _ => {}
        }
        if w.iter().all(|x| *x == 0.0) {
            let i = g.below(len);
            w[i] = 1.0;
        }
    }
    // count-like weights of astronomic size: every weight an integer below 2^64, their total beyond it
    if len > 1 && g.chance(0.06) {
        return (0..len).map(|_| if g.chance(0.3) { 0.0 } else { (g.uniform(1e18, 1.8e19)).floor() }).collect::<Vec<f64>>().into_iter().enumerate().map(|(i, x)| if i == 0 && x == 0.0 { 2e18 } else { x }).collect();
    }
    // categories much narrower than 2^-24 (but far wider than the float type's spacing near one)
    if len > 2 && g.chance(0.1) {
        let mut v: Vec<f64> = w.clone();
        let mx = v.iter().cloned().fold(0.0f64, f64::max).max(1e-300);
        for x in v.iter_mut() {
            *x /= mx;
        }
        for _ in 0..g.range(1, 3) {
            let i = g.below(len);
            v[i] = g.log_uniform(1e-12, 1e-8);
        }
        if v.iter().all(|x| *x < 1e-6) {
            v[0] = 1.0;
        }
        return v;
    }
    // sometimes one weight so small that its probability is a subnormal number of the float type
    // (f32: ratio below 1e-38; f64: below 1e-308; positive all the same)
    if len > 1 && g.chance(0.1) && w.iter().filter(|x| **x > 0.0).count() >= 2 {
        let imax = (0..len).max_by(|a, b| w[*a].partial_cmp(&w[*b]).unwrap()).unwrap();
        let i = (imax + 1 + g.below(len - 1)) % len;
        let mx = w[imax];
        let ratio = if g.bool() { g.log_uniform(1e-44, 1e-38) } else { g.log_uniform(1e-322, 1e-306) };
        let mut v: Vec<f64> = w.iter().map(|x| x / mx).collect();
        v[i] = ratio;
        return v;
    }
    // sometimes *almost* normalised: total within 1e-14..1e-2 of one (but not one)
    if g.chance(0.2) {
        let tot: f64 = w.iter().sum();
        let delta = g.log_uniform(1e-14, 1e-2) * if g.bool() { 1.0 } else { -1.0 };
        return w.iter().map(|x| x / tot * (1.0 + delta)).collect();
    }
    w.iter().map(|x| x * mag).collect()
}

fn case<F: Fl + std::ops::AddAssign>(ctx: &Ctx, rep: &mut Report, case: u64, g: &mut Sm64)
where
    StandardUniform: Distribution<F>,
{
    let mon = "inject";
    let len = match g.below(5) {
        0 => 1,
        1 => 2,
        2 => 64,
        _ => g.range(1, 64),
    };
    let w: Vec<F> = weights(g, len).iter().map(|x| F::of(*x)).collect();
    let sig = format!("Categorical F={}", F::NAME);
    let wj = || json!({"len": len, "weights": w.iter().map(|x| fj(x.to_f64().unwrap())).collect::<Vec<_>>()});
    let cat = match guard(|| Categorical::<F>::with_rng(w.clone(), SmallRng::seed_from_u64(1))) {
        Ok(c) => c,
        Err(m) => {
            rep.violation(&format!("{sig} panic in new"), mon, case, json!({"cfg": wj(), "panic": m}));
            return;
        }
    };
    rep.eval();
    let probs: Vec<f64> = cat.probs.iter().map(|p| p.to_f64().unwrap()).collect();
    rep.distinct(("cat", F::NAME, hash_u64s(&probs.iter().map(|p| p.to_bits()).collect::<Vec<_>>())));
    // normalisation
    let sum: f64 = probs.iter().sum();
    let wsum: f64 = w.iter().map(|x| x.to_f64().unwrap()).sum();
    if wsum != 1.0 && (wsum - 1.0).abs() < 1e-2 {
        rep.count("weight_vectors_almost_but_not_normalised");
    }
    if probs.len() != len || probs.iter().any(|p| !(*p >= 0.0)) || (sum - 1.0).abs() > (len as f64 + 2.0) * F::eps() {
        rep.violation(&format!("{sig} probs-not-normalised"), mon, case, json!({"cfg": wj(), "sum": fj(sum), "probs": fjv(&probs)}));
        return;
    }
    for i in 0..len {
        let expect = w[i].to_f64().unwrap() / wsum;
        // (a subnormal quotient carries an absolute error of up to one subnormal spacing)
        let quantum = F::min_positive_value().to_f64().unwrap() * F::eps();
        if (probs[i] - expect).abs() > 4.0 * (len as f64) * F::eps() * expect.max(1e-300) + quantum {
            rep.violation(&format!("{sig} probs-differ-from-weights/sum"), mon, case, json!({"cfg": wj(), "i": i, "prob": probs[i], "expected": expect}));
            return;
        }
    }
    rep.held();
    // logp
    for i in 0..len + 3 {
        let lp = <Categorical<F> as Discrete<F>>::logp(&cat, i).to_f64().unwrap();
        let lt = <Categorical<F> as Target<usize, F>>::unnorm_logp(&cat, &[i]).to_f64().unwrap();
        let expect = if i < len { probs[i].ln() } else { f64::NEG_INFINITY };
        // (an infinite expectation must be met exactly: zero probability <=> -inf)
        let ok = (lp == expect || (expect.is_finite() && (lp - expect).abs() <= 4.0 * F::eps() * expect.abs().max(1.0))) && (lt == lp || (lt.is_nan() && lp.is_nan()));
        if !ok {
            rep.violation(&format!("{sig} logp"), mon, case, json!({"cfg": wj(), "index": i, "logp": fj(lp), "target_logp": fj(lt), "expected": fj(expect)}));
            return;
        }
    }
    let big = usize::MAX;
    if <Categorical<F> as Discrete<F>>::logp(&cat, big).to_f64().unwrap() != f64::NEG_INFINITY {
        rep.violation(&format!("{sig} logp"), mon, case, json!({"cfg": wj(), "index": "usize::MAX"}));
        return;
    }
    rep.held();
    // (for the state-leak phase at the end)
    let mut w2 = w.clone();
    if len >= 4 {
        w2[1..len - 1].reverse();
    }
    let probs2: Vec<F> = {
        let c = Categorical::<F>::with_rng(w2.clone(), SmallRng::seed_from_u64(3));
        c.probs.clone()
    };
    // injected variates
    let steps = F::STEPS;
    let mut ks: Vec<u64> = vec![0, 1, steps - 1, steps - 2, steps / 2];
    // each cumulative sum and its neighbours (in F arithmetic, as the implementation accumulates)
    let mut cum = F::zero();
    for p in &cat.probs {
        cum += *p;
        let c = cum.to_f64().unwrap();
        let k = (c * steps as f64).floor();
        if k >= 0.0 {
            for d in [-2i64, -1, 0, 1, 2] {
                let kk = k as i64 + d;
                if kk >= 0 && (kk as u64) < steps {
                    ks.push(kk as u64);
                }
            }
        }
    }
    // the midpoint of every category's interval (exactly representable targets for narrow categories)
    {
        let mut lo = F::zero();
        for p in &cat.probs {
            let hi = lo + *p;
            if *p > F::zero() {
                let mid = (lo.to_f64().unwrap() + hi.to_f64().unwrap()) / 2.0;
                let k = (mid * steps as f64).floor();
                if k >= 0.0 && (k as u64) < steps {
                    ks.push(k as u64);
                }
            }
            lo = hi;
        }
    }
    let inverse_cdf = |u: F| -> (usize, bool) {
        let mut cum = F::zero();
        let mut near = false;
        for (i, p) in cat.probs.iter().enumerate() {
            cum += *p;
            if (u.to_f64().unwrap() - cum.to_f64().unwrap()).abs() <= 8.0 * F::eps() {
                near = true;
            }
            if u < cum {
                return (i, near);
            }
        }
        (cat.probs.iter().rposition(|p| *p > F::zero()).unwrap_or(len - 1), true)
    };
    let grid = if ctx.thorough { 4096u64 } else { 1024 };
    let grid_start = ks.len();
    for i in 0..grid {
        // stratified: one point per cell
        let cell = steps / grid;
        ks.push(i * cell + g.next_u64() % cell);
    }
    let mut counts = vec![0u64; len];
    for (idx, kk) in ks.iter().enumerate() {
        let rng = F::craft(*kk, g.next_u64());
        let u: f64 = F::peek(&rng).to_f64().unwrap();
        let mut c = Categorical::<F>::with_rng(w.clone(), rng);
        rep.eval();
        let s = match guard(|| c.sample()) {
            Ok(s) => s,
            Err(m) => {
                rep.violation(&format!("{sig} panic in sample"), mon, case, json!({"cfg": wj(), "u": u, "panic": m}));
                return;
            }
        };
        if u == 0.0 {
            rep.count("variate_exactly_0");
        }
        if *kk == steps - 1 {
            rep.count("variate_1_minus_ulp");
        }
        if s >= len {
            rep.violation(&format!("{sig} sample-out-of-range"), mon, case, json!({"cfg": wj(), "u": u, "sample": s}));
            return;
        }
        {
            // the sample is the inverse cdf of the stored probabilities at the variate drawn
            let uf: F = F::peek(&F::craft(*kk, 0));
            let (want, near) = inverse_cdf(uf);
            if uf.to_f64().unwrap() == u && !near && s != want && probs[s] > 0.0 {
                rep.violation(&format!("{sig} sample-is-not-the-inverse-cdf-of-probs-at-the-variate"), mon, case,
                    json!({"cfg": wj(), "u": u, "sample": s, "expected": want, "prob_of_expected": probs[want]}));
                return;
            }
        }
        if !(probs[s] > 0.0) {
            let pos = if s == 0 { "first" } else if s == len - 1 { "last" } else { "interior" };
            let ucls = if u == 0.0 { "u=0" } else if *kk >= steps - 2 { "u near 1" } else { "other u" };
            rep.violation(&format!("{sig} sampled-zero-probability-category position={pos} {ucls}"), mon, case,
                json!({"cfg": wj(), "u": u, "sample": s, "probs": fjv(&probs)}));
            return;
        }
        rep.held();
        if idx >= grid_start {
            counts[s] += 1;
        }
    }
    // measure of grid cells mapped to i equals p_i
    for i in 0..len {
        let frac = counts[i] as f64 / grid as f64;
        if (frac - probs[i]).abs() > 2.0 / grid as f64 + (len as f64 + 2.0) * F::eps() {
            rep.violation(&format!("{sig} realised-distribution-differs-from-probs"), mon, case,
                json!({"cfg": wj(), "category": i, "fraction_of_grid": frac, "prob": probs[i]}));
            return;
        }
    }
    rep.held();
    // state must not leak from one distribution to the next: (a) a second distribution of the same
    // length with the same first and last weight but the interior reversed, built on this thread
    // right after the first one was used; (b) the public `probs` of an existing object edited in place
    if len >= 4 {
        // (w2 and probs2 were allocated before the loop above, so that the objects built below get
        // their buffers where that loop's objects had theirs)
        if !bits_eq(&w2, &w) {
            for edit_in_place in [false, true] {
                // inverse cdf by definition, in F arithmetic
                let expect = |u: F| -> (usize, bool) {
                    let mut cum = F::zero();
                    let mut near = false;
                    for (i, p) in probs2.iter().enumerate() {
                        cum += *p;
                        if (u.to_f64().unwrap() - cum.to_f64().unwrap()).abs() <= 8.0 * F::eps() {
                            near = true;
                        }
                        if u < cum {
                            return (i, near);
                        }
                    }
                    (probs2.iter().rposition(|p| *p > F::zero()).unwrap_or(len - 1), true)
                };
                for i in 0..96u64 {
                    let kk = (i * (steps / 96) + g.next_u64() % (steps / 96)).min(steps - 1);
                    let rng = F::craft(kk, g.next_u64());
                    let u: F = F::peek(&rng);
                    let mut c = if edit_in_place {
                        let mut c = Categorical::<F>::with_rng(w.clone(), rng);
                        c.probs[1..len - 1].reverse();
                        c
                    } else {
                        Categorical::<F>::with_rng(w2.clone(), rng)
                    };
                    rep.eval();
                    let got = match guard(|| c.sample()) {
                        Ok(x) => x,
                        Err(m) => {
                            rep.violation(&format!("{sig} panic in sample"), mon, case, json!({"cfg": wj(), "panic": m}));
                            return;
                        }
                    };
                    let (want, near) = expect(u);
                    if got >= len || (!near && got != want) || !(probs2[got.min(len - 1)] > F::zero()) {
                        let how = if edit_in_place { "after the public probs were edited in place" } else { "for a second distribution built right after another of the same length and end weights" };
                        rep.violation(&format!("{sig} sample-is-not-the-inverse-cdf-of-the-current-probs {how}"), mon, case,
                            json!({"cfg": wj(), "u": u.to_f64().unwrap(), "sample": got, "expected": want, "current_probs": probs2.iter().map(|p| p.to_f64().unwrap()).collect::<Vec<_>>()}));
                        return;
                    }
                }
                rep.held();
                rep.count(if edit_in_place { "distributions_sampled_after_in_place_edit_of_probs" } else { "sibling_distributions_sampled_right_after" });
            }
        }
    }
    rep.sample(json!({"F": F::NAME, "len": len, "probs_head": fjv(&probs[..len.min(6)]), "injected_variates": ks.len(),
        "zero_prob_categories": probs.iter().filter(|p| **p == 0.0).count()}));
    rep.count_n("zero_probability_categories_present", probs.iter().filter(|p| **p == 0.0).count() as u64);
}

fn freq_case<F: Fl + std::ops::AddAssign>(rep: &mut Report, case: u64, g: &mut Sm64)
where
    StandardUniform: Distribution<F>,
{
    // algorithm-agnostic frequency check with an ordinary seed
    let mon = "freq";
    let len = g.range(2, 12);
    let w: Vec<F> = weights(g, len).iter().map(|x| F::of(*x)).collect();
    let mut c = Categorical::<F>::with_rng(w.clone(), SmallRng::seed_from_u64(g.next_u64()));
    let probs: Vec<f64> = c.probs.iter().map(|p| p.to_f64().unwrap()).collect();
    let n = 40_000usize;
    let mut counts = vec![0u64; len];
    for _ in 0..n {
        let s = c.sample();
        if s >= len {
            rep.violation("Categorical sample-out-of-range", mon, case, json!({"sample": s}));
            return;
        }
        counts[s] += 1;
    }
    rep.evals(n as u64);
    rep.distinct(("freq", F::NAME, hash_u64s(&probs.iter().map(|p| p.to_bits()).collect::<Vec<_>>())));
    for i in 0..len {
        let e = probs[i] * n as f64;
        let sd = (e * (1.0 - probs[i])).sqrt();
        if probs[i] == 0.0 && counts[i] > 0 {
            rep.violation("Categorical sampled-zero-probability-category (ordinary seed)", mon, case, json!({"i": i}));
            return;
        }
        if sd > 0.0 && (counts[i] as f64 - e).abs() > 6.5 * sd + 1.0 {
            rep.violation(&format!("Categorical F={} frequencies-differ-from-probs", F::NAME), mon, case,
                json!({"category": i, "count": counts[i], "expected": e, "z": (counts[i] as f64 - e) / sd, "probs": fjv(&probs)}));
            return;
        }
    }
    rep.held();
}

pub fn run(ctx: &Ctx, rep: &mut Report) {
    for c in ctx.case_ids("inject", 500, 1_000_000) {
        let mut g = ctx.rng("inject", c);
        if c % 2 == 0 {
            case::<f64>(ctx, rep, c, &mut g);
        } else {
            case::<f32>(ctx, rep, c, &mut g);
        }
    }
    for c in ctx.case_ids("freq", 60, 30_000) {
        let mut g = ctx.rng("freq", c);
        if c % 2 == 0 {
            freq_case::<f64>(rep, c, &mut g);
        } else {
            freq_case::<f32>(rep, c, &mut g);
        }
    }
}
