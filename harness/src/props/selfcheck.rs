//! Harness self-check: tensor form vs closed form of every harness target (not a property check).
use crate::targets::*;
use crate::util::*;
use burn::backend::{Autodiff, NdArray};
use burn::tensor::backend::AutodiffBackend;
use mini_mcmc::distributions::{BatchedGradientTarget, GradientTarget};
use serde_json::json;
type B64 = Autodiff<NdArray<f64>>;

fn one<G: RefTarget + BatchedGradientTarget<f64, B64> + GradientTarget<f64, B64>>(rep: &mut Report, g: &mut Sm64, t: G, scale: f64) {
    let d = t.dim();
    let n = 5;
    let pts: Vec<f64> = (0..n * d).map(|_| g.normal() * scale).collect();
    let pos = vt2::<B64>(&pts, n, d).require_grad();
    let lp = BatchedGradientTarget::<f64, B64>::unnorm_logp_batch(&t, pos.clone());
    let grads = pos.grad(&lp.backward()).unwrap();
    let lpv = tv(&lp);
    let gv: Vec<f64> = grads.to_data().iter::<f64>().collect();
    for r in 0..n {
        let x = &pts[r * d..(r + 1) * d];
        let (l, gr) = (t.logp(x), t.grad(x));
        let (sl, sg) = GradientTarget::<f64, B64>::unnorm_logp_and_grad(&t, vt1::<B64>(x));
        let sgv = tv(&sg);
        rep.eval();
        let mut worst = (lpv[r] - l).abs() / (1.0 + l.abs());
        worst = worst.max((tv(&sl)[0] - l).abs() / (1.0 + l.abs()));
        for k in 0..d {
            worst = worst.max((gv[r * d + k] - gr[k]).abs() / (1.0 + gr[k].abs()));
            worst = worst.max((sgv[k] - gr[k]).abs() / (1.0 + gr[k].abs()));
        }
        rep.max(&format!("rel_err[{}]", t.name().split('(').next().unwrap()), worst);
        if worst > 1e-10 {
            rep.violation(&format!("selfcheck {}", t.name()), "self", 0, json!({"x": x, "tensor_logp": lpv[r], "closed_logp": l, "tensor_grad": &gv[r*d..(r+1)*d], "closed_grad": gr}));
        } else {
            rep.held();
        }
        rep.distinct((t.name(), r));
    }
    rep.sample(json!({"target": t.name()}));
}

pub fn run(ctx: &Ctx, rep: &mut Report) {
    let mut g = ctx.rng("self", 0);
    for _ in 0..20 {
        let d = g.range(1, 8);
        let dg = DiagGauss::new((0..d).map(|_| g.log_uniform(0.1, 10.0)).collect(), (0..d).map(|_| g.uniform(-1.0, 1.0)).collect());
        one(rep, &mut g, dg, 1.0);
        let t = DenseGauss::random(&mut g, d, 50.0);
        one(rep, &mut g, t, 1.0);
        let nu = g.uniform(1.0, 8.0);
        one(rep, &mut g, StudentT { d, nu }, 2.0);
        one(rep, &mut g, Quartic { d }, 1.0);
        one(rep, &mut g, Funnel { d: d + 1, s: 3.0 }, 1.0);
    }
}
