//! C12 — ESS = M*N/tau with Geyer's initial-positive monotone sequence, whichever
//! autocovariance path (brute force <= 100 rows, FFT above) the chain length selects.

use crate::props::c11::{column, generate, perturbed, pick_n, to_array, Family};
use crate::refstats;
use crate::util::*;
use mini_mcmc::stats::split_rhat_mean_ess;
use ndarray::Array3;
use serde_json::json;

const DELTA: f64 = 3e-4;

/// true if `got` matches one of the reachable reference values under either variance convention
fn matches(col: &[Vec<f64>], got: f64, g: &mut Sm64) -> (bool, serde_json::Value, f64, refstats::EssRef) {
    let e0 = refstats::ess(col, 0, DELTA);
    let e1 = refstats::ess(col, 1, DELTA);
    let pcol = perturbed(col, g);
    let ep = refstats::ess(&pcol, 0, DELTA);
    let mut best = f64::INFINITY;
    let mut ok = false;
    // the comparison is made on tau = M*N/ESS = -1 + 2*sum(pair sums), where rounding errors are
    // additive; ESS itself is hypersensitive when tau is close to zero (antithetic chains)
    let mn = (2 * col.len() * (col[0].len() / 2)) as f64;
    let tau_got = mn / got;
    for (e, epc) in [(&e0, &ep), (&e1, &ep)] {
        for (i, cand) in e.candidates.iter().enumerate() {
            let tau_c = mn / cand;
            // sensitivity from the matching candidate of the perturbed evaluation, if it has one
            let sens = epc.candidates.get(i).map(|p| (mn / p - mn / e0.candidates.get(i).cloned().unwrap_or(*p)).abs()).unwrap_or(0.0);
            let mass: f64 = e.pairs.iter().take(e.cut.unwrap_or(e.pairs.len())).map(|p| p.abs()).sum();
            let tol = 2e-3 * (1.0 + 2.0 * mass) + 100.0 * sens;
            let err = if (cand.is_nan() && got.is_nan()) || (cand.is_infinite() && got == *cand) {
                0.0
            } else if !tau_c.is_finite() || !tol.is_finite() {
                if (tau_got == 0.0 && tau_c == 0.0) || got == *cand { 0.0 } else { f64::INFINITY }
            } else {
                (tau_got - tau_c).abs() / tol
            };
            if err < best {
                best = err;
            }
            if err <= 1.0 {
                ok = true;
            }
        }
    }
    let detail = json!({"reference_candidates_ddof0": fjv(&e0.candidates), "reference_candidates_ddof1": fjv(&e1.candidates),
        "first_pair_sums": fjv(&e0.pairs[..e0.pairs.len().min(6)]), "definite_cut_at_pair": e0.cut, "ambiguous_pairs": e0.ambiguous});
    (ok, detail, best, e0)
}

fn ess_case(ctx: &Ctx, rep: &mut Report, case: u64, g: &mut Sm64) {
    let mon = "ess";
    let sig = "split_rhat_mean_ess ess";
    let c = if g.chance(0.15) { 1 } else { g.range(1, 16) };
    let n = if g.chance(0.04) { g.range(2100, 3200) } else { pick_n(g, 4, if ctx.thorough { 5000 } else { 2000 }) };
    let p = g.range(1, if n > 1000 { 3 } else { 8 });
    let gen = generate(g, c, n, p, false, 10.0);
    let arr = to_array(&gen.data);
    rep.eval();
    // the diagnostics may be computed from inside any thread pool (1..3 threads: several
    // parameters share a worker)
    let threads = *g.choose(&[1usize, 2, 3, 16]);
    rep.count(&format!("pool_threads[{threads}]"));
    let pool = rayon::ThreadPoolBuilder::new().num_threads(threads).build().unwrap();
    let ess = match guard(|| pool.install(|| split_rhat_mean_ess(arr.view()).1)) {
        Ok(r) => r,
        Err(m) => {
            rep.violation(&format!("{sig} panic"), mon, case, json!({"c": c, "n": n, "p": p, "panic": m}));
            return;
        }
    };
    let path = if n / 2 <= 100 { "brute_force" } else { "fft" };
    rep.count(&format!("path[{path}]"));
    rep.distinct(("ess", c, n, p, gen.families.clone()));
    for j in 0..p {
        let col = column(&gen.data, j);
        let got = ess[j] as f64;
        let (ok, detail, best, e0) = matches(&col, got, g);
        rep.max("ess_error_over_tol", best);
        if e0.ambiguous > 0 {
            rep.count("arrays_with_branching_pair_sums");
        }
        rep.count(&format!("truncation_lag_bucket[{}]", match e0.cut { None => "none".to_string(), Some(k) if k < 2 => "0-1".into(), Some(k) if k < 8 => "2-7".into(), Some(k) if k < 32 => "8-31".into(), _ => "32+".into() }));
        if !ok {
            rep.violation(&format!("{sig} differs-from-Geyer-reference path={path}"), mon, case,
                json!({"c": c, "n": n, "p": p, "param": j, "family": format!("{:?}", gen.families[j]), "phi": gen.phis[j], "reported": fj(got), "ref": detail}));
            return;
        }
        rep.held();
        // coarse sanity bands (reported separately; only gross deviations are violations)
        let mn = (2 * c * (n / 2)) as f64;
        match gen.families[j] {
            Family::Iid if mn >= 4000.0 => {
                rep.count("band_iid_checked");
                let ratio = got / mn;
                rep.max("band_iid_max_abs_log_ratio", ratio.ln().abs());
                if !(0.7..=1.4).contains(&ratio) {
                    rep.violation(&format!("{sig} iid-band"), mon, case, json!({"c": c, "n": n, "ess": got, "draws": mn}));
                    return;
                }
            }
            Family::Ar1 if n / 2 >= 500 && mn >= 4000.0 && gen.phis[j] > -0.5 && gen.phis[j] < 0.9 => {
                let phi = gen.phis[j];
                let expect = mn * (1.0 - phi) / (1.0 + phi);
                if expect >= 400.0 {
                    rep.count("band_ar1_checked");
                    let ratio = got / expect;
                    rep.max("band_ar1_max_abs_log_ratio", ratio.ln().abs());
                    if !(0.4..=2.5).contains(&ratio) {
                        rep.violation(&format!("{sig} ar1-band"), mon, case, json!({"c": c, "n": n, "phi": phi, "ess": got, "expected": expect}));
                        return;
                    }
                }
            }
            _ => {}
        }
    }
    rep.sample(json!({"c": c, "n": n, "p": p, "path": path, "families": gen.families.iter().map(|f| format!("{f:?}")).collect::<Vec<_>>(),
        "ess": ess.iter().map(|x| fj(*x as f64)).collect::<Vec<_>>()}));
}

fn metamorphic_case(ctx: &Ctx, rep: &mut Report, case: u64, g: &mut Sm64) {
    let mon = "metamorphic";
    let sig = "split_rhat_mean_ess ess";
    let c = g.range(1, 8);
    let n = pick_n(g, 8, 1500);
    let p = g.range(1, 4);
    let mut gen = generate(g, c, n, p, false, 3.0);
    for j in 0..p {
        for ci in 0..c {
            for t in 0..n {
                gen.data[ci][t][j] = ((gen.data[ci][t][j] as f64 - gen.loc[j]) / gen.scale[j]) as f32;
            }
        }
    }
    let base = to_array(&gen.data);
    let run = |a: &Array3<f32>| guard(|| split_rhat_mean_ess(a.view()).1);
    rep.eval();
    let r0 = match run(&base) {
        Ok(r) => r,
        Err(m) => {
            rep.violation(&format!("{sig} panic"), mon, case, json!({"panic": m}));
            return;
        }
    };
    rep.distinct(("meta", c, n, p, gen.families.clone()));
    // transformed inputs are judged against the *reference of the transformed input* (set-valued),
    // and — when neither evaluation is near a truncation ambiguity — against each other
    let cj = json!({"c": c, "n": n, "p": p});
    let transforms: Vec<(&str, Array3<f32>)> = {
        let k = g.range(0, 10) as i32 - 5;
        let a = (2.0f32).powi(k) * if g.bool() { -1.0 } else { 1.0 };
        let (a2, b2) = (g.log_uniform(0.2, 5.0) as f32, g.uniform(-10.0, 10.0) as f32);
        let mut perm: Vec<usize> = (0..c).collect();
        g.shuffle(&mut perm);
        vec![
            ("x -> +-2^k x", base.mapv(|x| a * x)),
            ("x -> a x + b", base.mapv(|x| a2 * x + b2)),
            ("chain permutation", Array3::from_shape_fn((c, n, p), |(i, t, j)| base[[perm[i], t, j]])),
            ("time reversal", Array3::from_shape_fn((c, n, p), |(i, t, j)| base[[i, n - 1 - t, j]])),
            ("column-major storage", {
                use ndarray::ShapeBuilder;
                let mut f = Array3::<f32>::zeros((c, n, p).f());
                f.assign(&base);
                f
            }),
            ("axis-permuted view of a draws-major buffer", Array3::from_shape_fn((n, c, p), |(t, i, j)| base[[i, t, j]]).permuted_axes([1, 0, 2])),
        ]
    };
    for (name, arr) in transforms {
        rep.eval();
        match run(&arr) {
            Err(m) => {
                rep.violation(&format!("{sig} panic"), mon, case, json!({"cfg": cj, "transform": name, "panic": m}));
                return;
            }
            Ok(r) => {
                for j in 0..p {
                    let col: Vec<Vec<f64>> = (0..c).map(|i| (0..n).map(|t| arr[[i, t, j]] as f64).collect()).collect();
                    let (ok, detail, _, e) = matches(&col, r[j] as f64, g);
                    if !ok {
                        rep.violation(&format!("{sig} differs-from-Geyer-reference after {name}"), mon, case,
                            json!({"cfg": cj, "param": j, "reported": fj(r[j] as f64), "ref": detail}));
                        return;
                    }
                    let base_col = column(&gen.data, j);
                    let e_base = refstats::ess(&base_col, 0, DELTA);
                    if e.ambiguous == 0 && e_base.ambiguous == 0 {
                        let rel = if name == "x -> a x + b" { 2e-2 } else { 1e-2 };
                        let mnn = (2 * c * (n / 2)) as f64;
                        let (ta, tb) = (mnn / r[j] as f64, mnn / r0[j] as f64);
                        if !close(ta, tb, rel, 1e-2) {
                            rep.violation(&format!("{sig} not-invariant-under {name}"), mon, case,
                                json!({"cfg": cj, "param": j, "before": fj(r0[j] as f64), "after": fj(r[j] as f64)}));
                            return;
                        }
                        rep.held();
                    } else {
                        rep.inconclusive("invariance comparison skipped: a pair sum is within rounding distance of zero");
                    }
                }
            }
        }
    }
    rep.count("metamorphic_groups");
}

pub fn run(ctx: &Ctx, rep: &mut Report) {
    for c in ctx.case_ids("ess", 2000, 100_000) {
        let mut g = ctx.rng("ess", c);
        ess_case(ctx, rep, c, &mut g);
    }
    for c in ctx.case_ids("metamorphic", 300, 20_000) {
        let mut g = ctx.rng("metamorphic", c);
        metamorphic_case(ctx, rep, c, &mut g);
    }
}
