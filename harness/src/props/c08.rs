//! C08 — chains of one sampler are driven by distinct random streams.
//!
//! Observation points: public fields `chains[i].rng`, `chains[i].proposal` (clones are advanced,
//! never the originals), trajectories from a common start state, HMC rows, NUTS chains.

use crate::targets::*;
use crate::util::*;
use burn::backend::{Autodiff, NdArray};
use mini_mcmc::core::ChainRunner;
use mini_mcmc::distributions::{IsotropicGaussian, Proposal};
use mini_mcmc::hmc::HMC;
use mini_mcmc::metropolis_hastings::MetropolisHastings;
use mini_mcmc::nuts::NUTS;
use rand::rngs::SmallRng;
use rand::{Rng, RngCore, SeedableRng};
use rand_distr::{Distribution, Normal};
use serde_json::json;

type B64 = Autodiff<NdArray<f64>>;

/// user-defined seedable proposal that exposes its generator
#[derive(Clone, Debug)]
pub struct OpenProposal {
    pub rng: SmallRng,
    pub scale: f64,
}
impl Proposal<f64, f64> for OpenProposal {
    fn sample(&mut self, current: &[f64]) -> Vec<f64> {
        current.iter().map(|x| x + self.scale * (self.rng.random::<f64>() - 0.5)).collect()
    }
    fn logp(&self, _from: &[f64], _to: &[f64]) -> f64 {
        0.0
    }
    fn set_seed(mut self, seed: u64) -> Self {
        self.rng = SmallRng::seed_from_u64(seed);
        self
    }
}

fn next4(r: &SmallRng) -> [u64; 4] {
    let mut c = r.clone();
    [c.next_u64(), c.next_u64(), c.next_u64(), c.next_u64()]
}

/// one case in SCAN_EVERY gets the (comparatively expensive) overlap scan
static SCAN_EVERY: std::sync::atomic::AtomicU64 = std::sync::atomic::AtomicU64::new(4);

/// Streams that are the same sequence at an offset: does the start of any generator (its next
/// four outputs) occur within the first `horizon` outputs of another one?
fn overlap_within(gens: &[SmallRng], horizon: usize) -> Option<(usize, usize, usize)> {
    let mut starts = std::collections::HashMap::new();
    for (j, r) in gens.iter().enumerate() {
        starts.insert(next4(r), j);
    }
    for (i, r) in gens.iter().enumerate() {
        let mut c = r.clone();
        let mut w = [c.next_u64(), c.next_u64(), c.next_u64(), c.next_u64()];
        for pos in 1..horizon {
            w = [w[1], w[2], w[3], c.next_u64()];
            if let Some(j) = starts.get(&w) {
                if *j != i {
                    return Some((i, *j, pos));
                }
            }
        }
    }
    None
}

fn mh_case(rep: &mut Report, case: u64, g: &mut Sm64) {
    let mon = "streams";
    let n_chains = if g.chance(0.2) { 64 } else if g.chance(0.3) { g.range(2, 8) } else { g.range(2, 64) };
    let dim = g.range(1, 4);
    let seeded = g.chance(0.6);
    // seeds whose per-chain offsets land on or wrap around structurally special values
    // (0, 2^32, 2^62, 2^63, 3*2^62, 2^64): k below ranges over the chain indices
    let k = g.below(n_chains + 2) as u64;
    let seed = match g.below(10) {
        0 => 0,
        1 => u64::MAX - n_chains as u64 - 2,
        2 => u64::MAX.wrapping_sub(k),
        3 => (1u64 << 62).wrapping_sub(1).wrapping_sub(k),
        4 => (1u64 << 63).wrapping_sub(1).wrapping_sub(k),
        5 => (3u64 << 62).wrapping_sub(1).wrapping_sub(k),
        6 => (1u64 << 32).wrapping_sub(1).wrapping_sub(k),
        _ => g.next_u64() >> 1,
    };
    let open = g.chance(0.5);
    let prop_seeded = g.chance(0.5);
    let x0: Vec<f64> = (0..dim).map(|_| g.normal()).collect();
    let inits = vec![x0.clone(); n_chains];
    let cj = json!({"n_chains": n_chains, "dim": dim, "seeded": seeded, "seed": seed, "user_defined_proposal": open, "proposal_seeded_by_user": prop_seeded});
    let sig = format!("MetropolisHastings proposal={} seeded={}", if open { "user-defined" } else { "IsotropicGaussian" }, seeded);
    rep.eval();
    if open {
        let mut p = OpenProposal { rng: SmallRng::seed_from_u64(g.next_u64()), scale: 1.0 };
        if prop_seeded {
            p = p.set_seed(g.next_u64());
        }
        let r = guard(|| {
            let mut s = MetropolisHastings::new(IsotropicGaussian::<f64>::new(1.0), p, inits.clone());
            if seeded {
                s = s.seed(seed);
            }
            s
        });
        let mut s = match r {
            Ok(s) => s,
            Err(m) => {
                rep.violation(&format!("{sig} panic"), mon, case, json!({"cfg": cj, "panic": m}));
                return;
            }
        };
        let acc: Vec<[u64; 4]> = s.chains.iter().map(|c| next4(&c.rng)).collect();
        let prp: Vec<[u64; 4]> = s.chains.iter().map(|c| next4(&c.proposal.rng)).collect();
        for i in 0..n_chains {
            if acc[i] == prp[i] {
                rep.violation(&format!("{sig} acceptance-generator-equals-proposal-generator"), mon, case, json!({"cfg": cj, "chain": i}));
                return;
            }
            // a stream is a stream whatever it is used for: chain i's proposal noise must not be
            // chain j's acceptance stream either
            if let Some(j) = (0..n_chains).find(|j| acc[*j] == prp[i]) {
                rep.violation(&format!("{sig} proposal-generator-of-one-chain-equals-acceptance-generator-of-another"), mon, case, json!({"cfg": cj, "proposal_of_chain": i, "acceptance_of_chain": j}));
                return;
            }
            for j in 0..i {
                if acc[i] == acc[j] {
                    rep.violation(&format!("{sig} two-chains-share-acceptance-stream"), mon, case, json!({"cfg": cj, "chains": [j, i]}));
                    return;
                }
                if prp[i] == prp[j] {
                    rep.violation(&format!("{sig} two-chains-share-proposal-stream"), mon, case, json!({"cfg": cj, "chains": [j, i]}));
                    return;
                }
                rep.count("chain_pairs_compared");
            }
        }
        if n_chains <= 8 && case % SCAN_EVERY.load(std::sync::atomic::Ordering::Relaxed) == 0 {
            // a long run consumes millions of draws per chain: the streams must not be one sequence at a lag
            let gens: Vec<SmallRng> = s.chains.iter().map(|c| c.rng.clone()).chain(s.chains.iter().map(|c| c.proposal.rng.clone())).collect();
            let horizon = 1usize << 21;
            rep.count("generator_sets_scanned_for_overlap_within_2^21_draws");
            if let Some((i, j, pos)) = overlap_within(&gens, horizon) {
                let nm = |k: usize| if k < n_chains { format!("acceptance generator of chain {k}") } else { format!("proposal generator of chain {}", k - n_chains) };
                rep.violation(&format!("{sig} two-generators-are-one-sequence-at-an-offset"), mon, case, json!({"cfg": cj, "stream": nm(i), "reaches_the_start_of": nm(j), "after_draws": pos}));
                return;
            }
        }
        if !trajectories(rep, &sig, mon, case, &cj, &mut s, n_chains, &x0) {
            return;
        }
    } else {
        let std = 0.7;
        let mut p = IsotropicGaussian::<f64>::new(std);
        if prop_seeded {
            p = p.set_seed(g.next_u64());
        }
        // the user may have tried the proposal out before handing it over
        if g.chance(0.4) {
            let _ = p.sample(&x0);
            rep.count("library_proposal_sampled_before_being_handed_over");
        }
        let r = guard(|| {
            let mut s = MetropolisHastings::new(IsotropicGaussian::<f64>::new(1.0), p, inits.clone());
            if seeded {
                s = s.seed(seed);
            }
            s
        });
        let mut s = match r {
            Ok(s) => s,
            Err(m) => {
                rep.violation(&format!("{sig} panic"), mon, case, json!({"cfg": cj, "panic": m}));
                return;
            }
        };
        let acc: Vec<[u64; 4]> = s.chains.iter().map(|c| next4(&c.rng)).collect();
        // next proposal of every chain from the common state, drawn from a clone
        let prp: Vec<Vec<u64>> = s.chains.iter().map(|c| bits_vec(&c.proposal.clone().sample(&x0))).collect();
        // what the proposal would draw if its generator were a copy of the acceptance generator
        let as_if: Vec<Vec<u64>> = s
            .chains
            .iter()
            .map(|c| {
                let normal = Normal::new(0.0f64, std).unwrap();
                let v: Vec<f64> = normal.sample_iter(c.rng.clone()).zip(&x0).map(|(z, x)| z + x).collect();
                bits_vec(&v)
            })
            .collect();
        for i in 0..n_chains {
            if prp[i] == as_if[i] {
                rep.violation(&format!("{sig} acceptance-generator-equals-proposal-generator"), mon, case, json!({"cfg": cj, "chain": i}));
                return;
            }
            if let Some(j) = (0..n_chains).find(|j| as_if[*j] == prp[i]) {
                rep.violation(&format!("{sig} proposal-generator-of-one-chain-equals-acceptance-generator-of-another"), mon, case, json!({"cfg": cj, "proposal_of_chain": i, "acceptance_of_chain": j}));
                return;
            }
            for j in 0..i {
                if acc[i] == acc[j] {
                    rep.violation(&format!("{sig} two-chains-share-acceptance-stream"), mon, case, json!({"cfg": cj, "chains": [j, i]}));
                    return;
                }
                if prp[i] == prp[j] {
                    rep.violation(&format!("{sig} two-chains-share-proposal-stream"), mon, case,
                        json!({"cfg": cj, "chains": [j, i], "identical_first_proposal": f64_vec(&s.chains[i].proposal.clone().sample(&x0))}));
                    return;
                }
                rep.count("chain_pairs_compared");
            }
        }
        if n_chains <= 8 && case % SCAN_EVERY.load(std::sync::atomic::Ordering::Relaxed) == 0 {
            let gens: Vec<SmallRng> = s.chains.iter().map(|c| c.rng.clone()).collect();
            rep.count("generator_sets_scanned_for_overlap_within_2^21_draws");
            if let Some((i, j, pos)) = overlap_within(&gens, 1usize << 21) {
                rep.violation(&format!("{sig} two-generators-are-one-sequence-at-an-offset"), mon, case, json!({"cfg": cj, "stream": format!("acceptance generator of chain {i}"), "reaches_the_start_of": format!("acceptance generator of chain {j}"), "after_draws": pos}));
                return;
            }
        }
        if !trajectories(rep, &sig, mon, case, &cj, &mut s, n_chains, &x0) {
            return;
        }
    }
    rep.held();
    rep.distinct(("mh", n_chains, dim, seeded, seed, open, prop_seeded));
    rep.sample(json!({"sampler": "MH", "cfg": cj}));
}

fn trajectories<Q>(
    rep: &mut Report,
    sig: &str,
    mon: &str,
    case: u64,
    cj: &serde_json::Value,
    s: &mut MetropolisHastings<f64, f64, IsotropicGaussian<f64>, Q>,
    n_chains: usize,
    x0: &[f64],
) -> bool
where
    Q: Proposal<f64, f64> + Clone + Send,
{
    let n = 12;
    let arr = match guard(|| s.run(n, 0).unwrap()) {
        Ok(a) => a,
        Err(m) => {
            rep.violation(&format!("{sig} panic in run"), mon, case, json!({"cfg": cj, "panic": m}));
            return false;
        }
    };
    let d = arr.shape()[2];
    let row = |c: usize, k: usize| -> Vec<u64> { (0..d).map(|q| arr[[c, k, q]].to_bits()).collect() };
    let start = bits_vec(x0);
    for i in 0..n_chains {
        for j in 0..i {
            // first step at which either chain moves: the two chains must be at different states then
            let (mut pi, mut pj) = (start.clone(), start.clone());
            for k in 0..n {
                let (ri, rj) = (row(i, k), row(j, k));
                let moved = ri != pi || rj != pj;
                if moved {
                    if ri == rj {
                        rep.violation(&format!("{sig} chains-from-common-state-follow-identical-trajectories"), mon, case,
                            json!({"cfg": cj, "chains": [j, i], "step": k}));
                        return false;
                    }
                    break;
                }
                pi = ri;
                pj = rj;
            }
        }
    }
    true
}

fn hmc_case(rep: &mut Report, case: u64, g: &mut Sm64) {
    let mon = "streams";
    let n_chains = g.range(2, 64);
    let dim = g.range(1, 4);
    let seeded = g.chance(0.6);
    let seed = match g.below(6) {
        0 => u64::MAX,
        1 => 0,
        _ => g.next_u64(),
    };
    let x0: Vec<f64> = (0..dim).map(|_| g.normal() * 0.3).collect();
    let cj = json!({"sampler": "HMC", "n_chains": n_chains, "dim": dim, "seeded": seeded, "seed": seed});
    rep.eval();
    let r = guard(|| {
        let target = DiagGauss::new((0..dim).map(|i| 0.731 + 0.64 * i as f64).collect(), vec![0.0; dim]);
        let mut s = HMC::<f64, B64, DiagGauss>::new(target, vec![x0.clone(); n_chains], 0.05, 2);
        if seeded {
            s = s.set_seed(seed);
        }
        mini_mcmc::verif::enable();
        let out = s.run(3, 0);
        let ev = mini_mcmc::verif::take();
        mini_mcmc::verif::disable();
        (tv(&out), ev)
    });
    match r {
        Err(m) => rep.violation("HMC panic", mon, case, json!({"cfg": cj, "panic": m})),
        Ok((v, events)) => {
            // the draws themselves (hook): every row of a step has its own momentum and its own acceptance draw
            for (si, e) in events.iter().enumerate() {
                if let mini_mcmc::verif::Event::HmcStep { momenta, uniforms, .. } = e {
                    for i in 0..n_chains {
                        for j in 0..i {
                            if uniforms[i].to_bits() == uniforms[j].to_bits() {
                                rep.violation("HMC two-rows-share-an-acceptance-draw", mon, case, json!({"cfg": cj, "step": si, "rows": [j, i], "u": uniforms[i]}));
                                return;
                            }
                            if bits_eq(&momenta[i * dim..(i + 1) * dim], &momenta[j * dim..(j + 1) * dim]) {
                                rep.violation("HMC two-rows-share-a-momentum-draw", mon, case, json!({"cfg": cj, "step": si, "rows": [j, i]}));
                                return;
                            }
                        }
                    }
                }
            }
            // [n_chains, 3, dim]
            for i in 0..n_chains {
                for j in 0..i {
                    let a = &v[i * 3 * dim..(i + 1) * 3 * dim];
                    let b = &v[j * 3 * dim..(j + 1) * 3 * dim];
                    if bits_eq(a, b) {
                        // identical only if both never moved
                        let never_moved = a.chunks(dim).all(|r| bits_eq(r, &x0));
                        if !never_moved {
                            rep.violation("HMC rows-from-common-state-follow-identical-trajectories", mon, case, json!({"cfg": cj, "rows": [j, i]}));
                            return;
                        }
                    }
                    rep.count("chain_pairs_compared");
                }
            }
            rep.held();
            rep.distinct(("hmc", n_chains, dim, seeded, seed));
        }
    }
}

fn nuts_case(rep: &mut Report, case: u64, g: &mut Sm64) {
    let mon = "streams";
    // the statement covers 2..64 chains (construction may switch strategy with the chain count)
    let n_chains = if g.chance(0.3) { *g.choose(&[15usize, 16, 17, 32, 33, 64]) } else { g.range(2, 24) };
    let dim = g.range(1, 3);
    let seeded = g.chance(0.6);
    let k = g.below(n_chains + 2) as u64;
    let seed = match g.below(8) {
        0 => 0,
        1 => u64::MAX.wrapping_sub(k),
        2 => u64::MAX,
        3 => (1u64 << 63).wrapping_sub(1).wrapping_sub(k),
        _ => g.next_u64() >> 1,
    };
    let x0: Vec<f64> = (0..dim).map(|_| g.normal() * 0.3).collect();
    let cj = json!({"sampler": "NUTS", "n_chains": n_chains, "dim": dim, "seeded": seeded, "seed": seed});
    rep.eval();
    let r = guard(|| {
        // (not unit precision: with the default step size 1 the leapfrog map of a unit Gaussian is a
        // rotation by exactly 60 degrees, every orbit contains the antipode -x0 whatever the momentum,
        // and chains with different streams legitimately meet there)
        let target = DiagGauss::new((0..dim).map(|i| 0.731 + 0.64 * i as f64).collect(), vec![0.0; dim]);
        let mut s = NUTS::<f64, B64, DiagGauss>::new(target, vec![x0.clone(); n_chains], 0.8);
        if seeded {
            s = s.set_seed(seed);
        }
        let gens = s.verif_chain_rngs();
        (tv(&s.run(4, 0)), gens)
    });
    match r {
        Err(m) => rep.violation("NUTS panic", mon, case, json!({"cfg": cj, "panic": m})),
        Ok((v, gens)) => {
            // the generators themselves (hook): pairwise distinct, and not one sequence at an offset
            let st: Vec<[u64; 4]> = gens.iter().map(next4).collect();
            for i in 0..gens.len() {
                for j in 0..i {
                    if st[i] == st[j] {
                        rep.violation("NUTS two-chains-share-a-generator-state", mon, case, json!({"cfg": cj, "chains": [j, i]}));
                        return;
                    }
                }
            }
            if gens.len() != n_chains {
                rep.violation("NUTS hook reports a generator count other than the chain count", mon, case, json!({"cfg": cj, "generators": gens.len()}));
                return;
            }
            if n_chains <= 8 && case % SCAN_EVERY.load(std::sync::atomic::Ordering::Relaxed) == 7 % SCAN_EVERY.load(std::sync::atomic::Ordering::Relaxed) {
                rep.count("generator_sets_scanned_for_overlap_within_2^21_draws");
                if let Some((i, j, pos)) = overlap_within(&gens, 1usize << 21) {
                    rep.violation("NUTS two-generators-are-one-sequence-at-an-offset", mon, case, json!({"cfg": cj, "chain": i, "reaches_the_start_of_chain": j, "after_draws": pos}));
                    return;
                }
            }
            for i in 0..n_chains {
                for j in 0..i {
                    let a = &v[i * 4 * dim..(i + 1) * 4 * dim];
                    let b = &v[j * 4 * dim..(j + 1) * 4 * dim];
                    if bits_eq(a, b) && !a.chunks(dim).all(|r| bits_eq(r, &x0)) {
                        rep.violation("NUTS chains-from-common-state-follow-identical-trajectories", mon, case, json!({"cfg": cj, "chains": [j, i], "x0": x0, "trajectory": a}));
                        return;
                    }
                    rep.count("chain_pairs_compared");
                }
            }
            rep.held();
            rep.distinct(("nuts", n_chains, dim, seeded, seed));
            rep.distinct_in("NUTS chain counts", n_chains);
        }
    }
}

/// "For all seeds": construction and seeding are cheap, so millions of seeds can be examined for two
/// chains of one sampler receiving the same generator (a seed derivation through a narrow
/// intermediate - 32 bits, say - collides for about one seed in 2^33 / n_chains^2).
fn seed_scan_case(ctx: &Ctx, rep: &mut Report, case: u64, g: &mut Sm64) {
    let mon = "seedscan";
    let n_chains = 64usize;
    let budget: u64 = if ctx.thorough { 1 << 23 } else { 1 << 21 };
    let base = match g.below(4) {
        0 => 0u64,
        1 => u64::MAX - budget / 2,
        _ => g.next_u64(),
    };
    let nuts = case % 2 == 0;
    let r = guard(|| {
        let mut hit: Option<(u64, usize, usize)> = None;
        if nuts {
            let target = DiagGauss::new(vec![1.0], vec![0.0]);
            let mut s = NUTS::<f64, B64, DiagGauss>::new(target, vec![vec![0.1]; n_chains], 0.8);
            let mut seen = std::collections::HashMap::with_capacity(n_chains);
            'outer: for k in 0..budget {
                let seed = base.wrapping_add(k);
                s = s.set_seed(seed);
                seen.clear();
                for (i, r) in s.verif_chain_rngs().iter().enumerate() {
                    if let Some(j) = seen.insert(next4(r), i) {
                        hit = Some((seed, j, i));
                        break 'outer;
                    }
                }
            }
        } else {
            let mut s = MetropolisHastings::new(IsotropicGaussian::<f64>::new(1.0), OpenProposal { rng: SmallRng::seed_from_u64(1), scale: 1.0 }, vec![vec![0.1]; n_chains]);
            let mut seen = std::collections::HashMap::with_capacity(2 * n_chains);
            'outer2: for k in 0..budget / 4 {
                let seed = base.wrapping_add(k);
                s = s.seed(seed);
                seen.clear();
                for (i, c) in s.chains.iter().enumerate() {
                    for (which, r) in [(0usize, &c.rng), (1, &c.proposal.rng)] {
                        if let Some(j) = seen.insert(next4(r), 2 * i + which) {
                            hit = Some((seed, j, 2 * i + which));
                            break 'outer2;
                        }
                    }
                }
            }
        }
        hit
    });
    let scanned = if nuts { budget } else { budget / 4 };
    rep.evals(scanned);
    rep.count_n(if nuts { "seeds_scanned_nuts_64_chains" } else { "seeds_scanned_mh_64_chains" }, scanned);
    match r {
        Err(m) => rep.violation("seed scan panic", mon, case, json!({"sampler": if nuts { "NUTS" } else { "MH" }, "panic": m})),
        Ok(Some((seed, a, b))) => rep.violation(
            &format!("{} two-generators-of-one-sampler-start-identically (seed scan)", if nuts { "NUTS" } else { "MetropolisHastings" }),
            mon, case, json!({"seed": seed, "n_chains": n_chains, "generators": [a, b], "note": "MH: generator 2i = acceptance of chain i, 2i+1 = proposal of chain i"})),
        Ok(None) => {
            rep.held();
            rep.distinct(("seedscan", nuts, base));
        }
    }
}

pub fn run(ctx: &Ctx, rep: &mut Report) {
    for c in ctx.case_ids("seedscan", 4, 32) {
        let mut g = ctx.rng("seedscan", c);
        seed_scan_case(ctx, rep, c, &mut g);
    }
    SCAN_EVERY.store(if ctx.thorough { 96 } else { 4 }, std::sync::atomic::Ordering::Relaxed);
    for c in ctx.case_ids("streams", 400, 1_000_000) {
        let mut g = ctx.rng("streams", c);
        match c % 8 {
            0..=4 => mh_case(rep, c, &mut g),
            5 | 6 => hmc_case(rep, c, &mut g),
            _ => nuts_case(rep, c, &mut g),
        }
    }
}
