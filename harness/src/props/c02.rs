//! C02 — HMC update = L leapfrog steps plus Metropolis test on the Hamiltonian; rows independent;
//! integrator time-reversible.
//!
//! Shadow execution: the momenta and uniforms a step consumed are read from the hook event and
//! fed, row by row, to an f64 velocity-Verlet reference with closed-form gradients.

use crate::refhmc;
use crate::targets::*;
use crate::util::*;
use burn::backend::{Autodiff, NdArray};
use burn::prelude::*;
use burn::tensor::backend::AutodiffBackend;
use burn::tensor::Element;
use mini_mcmc::distributions::{BatchedGradientTarget, DiffableGaussian2D, Rosenbrock2D, RosenbrockND};
use mini_mcmc::hmc::HMC;
use mini_mcmc::verif as hook;
use rand_distr::{Distribution, StandardNormal, StandardUniform};
use serde_json::json;

type B32 = Autodiff<NdArray<f32>>;
type B64 = Autodiff<NdArray<f64>>;

/// a library target paired with its closed form
#[derive(Clone)]
pub struct LibPair<L, R> {
    pub lib: L,
    pub reference: R,
}
impl<T, B, L, R> BatchedGradientTarget<T, B> for LibPair<L, R>
where
    T: num_traits::Float,
    B: AutodiffBackend,
    L: BatchedGradientTarget<T, B>,
{
    fn unnorm_logp_batch(&self, positions: Tensor<B, 2>) -> Tensor<B, 1> {
        tick();
        self.lib.unnorm_logp_batch(positions)
    }
}
impl<L: Clone + Send + Sync, R: RefTarget> RefTarget for LibPair<L, R> {
    fn dim(&self) -> usize {
        self.reference.dim()
    }
    fn logp(&self, x: &[f64]) -> f64 {
        self.reference.logp(x)
    }
    fn grad(&self, x: &[f64]) -> Vec<f64> {
        self.reference.grad(x)
    }
    fn name(&self) -> String {
        self.reference.name()
    }
}
// RosenbrockND is not Clone in the library
#[derive(Clone)]
pub struct RosenNdLib;
impl<T: num_traits::Float + Element, B: AutodiffBackend> BatchedGradientTarget<T, B> for RosenNdLib {
    fn unnorm_logp_batch(&self, positions: Tensor<B, 2>) -> Tensor<B, 1> {
        BatchedGradientTarget::<T, B>::unnorm_logp_batch(&RosenbrockND {}, positions)
    }
}

pub trait Scalar:
    num_traits::Float
    + burn::tensor::ElementConversion
    + Element
    + rand_distr::uniform::SampleUniform
    + num_traits::FromPrimitive
    + num_traits::FloatConst
    + std::fmt::Debug
    + Send
    + Sync
    + 'static
{
    const NAME: &'static str;
    fn of(x: f64) -> Self;
    fn f(self) -> f64;
}
impl Scalar for f32 {
    const NAME: &'static str = "f32";
    fn of(x: f64) -> f32 {
        x as f32
    }
    fn f(self) -> f64 {
        self as f64
    }
}
impl Scalar for f64 {
    const NAME: &'static str = "f64";
    fn of(x: f64) -> f64 {
        x
    }
    fn f(self) -> f64 {
        self
    }
}

/// relative perturbation of 2..4 units of the implementation's rounding unit, random sign
/// (never rounds away, unlike a sub-ulp perturbation)
fn jig(g: &mut Sm64, x: f64, eps: f64) -> f64 {
    let mag = (2.0 + 2.0 * g.f64()) * eps;
    x * (1.0 + if g.bool() { mag } else { -mag })
}

#[allow(clippy::too_many_arguments)]
fn drive<T, B, G>(ctx: &Ctx, rep: &mut Report, case: u64, g: &mut Sm64, target: G, scale: f64, bname: &str, beps: f64, max_elems: usize)
where
    T: Scalar,
    B: AutodiffBackend,
    G: BatchedGradientTarget<T, B> + RefTarget + Sync,
    StandardNormal: Distribution<T>,
    StandardUniform: Distribution<T>,
{
    let mon = "shadow";
    let d = target.dim();
    let n_chains = if g.chance(0.2) { *g.choose(&[1usize, 2, 32]) } else { g.range(1, 32) };
    let n_chains = n_chains.min((max_elems / d).max(1));
    let l = match g.below(6) {
        0 => 0,
        1 => 1,
        2 => 64,
        3 => g.range(2, 8),
        _ => g.range(0, 64),
    };
    let mut step = T::of(g.log_uniform(1e-3, 10.0) * (if scale < 1e-3 { scale } else { scale.min(1.0).max(0.05) }));
    let mut eps = step.f();
    let mut l = l;
    // the public fields step_size / n_leapfrog may be reassigned between steps
    let reassign = g.chance(0.4);
    let step2 = T::of(g.log_uniform(1e-3, 10.0) * (if scale < 1e-3 { scale } else { scale.min(1.0).max(0.05) }));
    let l2 = g.range(0, 20);
    let seed = g.next_u64();
    let inits: Vec<Vec<T>> = (0..n_chains).map(|_| (0..d).map(|_| T::of(g.normal() * 1.5 * scale)).collect()).collect();
    let tname = target.name();
    let sig = format!("HMC::step target={}", tname.split('(').next().unwrap_or(&tname));
    let cfg = json!({"target": tname, "T": T::NAME, "backend": bname, "n_chains": n_chains, "dim": d, "L": l, "step_size": eps, "seed": seed});
    rep.distinct(("hmc", tname.clone(), T::NAME, bname.to_string(), n_chains, l, case));
    let mut sampler = match guard(|| HMC::<T, B, G>::new(target.clone(), inits.clone(), step, l).set_seed(seed)) {
        Ok(s) => s,
        Err(m) => {
            rep.violation(&format!("{sig} panic in new"), mon, case, json!({"cfg": cfg, "panic": m}));
            return;
        }
    };
    let n_steps = 5;
    let mut rejected_before = vec![false; n_chains];
    for stepi in 0..n_steps {
        if reassign && stepi == 3 {
            sampler.step_size = step2;
            sampler.n_leapfrog = l2;
            step = step2;
            eps = step2.f();
            l = l2;
            rep.count("public_fields_reassigned_between_steps");
            if g.bool() {
                // ... and the public positions tensor (restart all chains elsewhere)
                let newpos: Vec<f64> = (0..n_chains * d).map(|_| g.normal() * 1.5 * scale).collect();
                sampler.positions = vt2::<B>(&newpos, n_chains, d);
                rep.count("public_positions_reassigned_between_steps");
            }
        }
        let before = tv(&sampler.positions);
        let (mut twin_a, mut twin_b) = (sampler.clone(), sampler.clone());
        hook::enable();
        let r = guard(|| sampler.step());
        let events = hook::take();
        hook::disable();
        rep.eval();
        if let Err(m) = r {
            rep.violation(&format!("{sig} panic"), mon, case, json!({"cfg": cfg, "step": stepi, "panic": m}));
            return;
        }
        let after = tv(&sampler.positions);
        // the sampler's own integrator, run on twins from the same (x, p): where a row moved, it
        // must sit on that end point bit for bit (selection, not arithmetic on the positions)
        let own_endpoint: Option<Vec<f64>> = events.iter().find_map(|e| if let hook::Event::HmcStep { momenta, .. } = e { Some(momenta.clone()) } else { None }).and_then(|mom| {
            let r = guard(|| {
                let (xa, _, _) = twin_a.verif_leapfrog(vt2::<B>(&before, n_chains, d), vt2::<B>(&mom, n_chains, d));
                let (xb, _, _) = twin_b.verif_leapfrog(vt2::<B>(&before, n_chains, d), vt2::<B>(&mom, n_chains, d));
                (tv(&xa), tv(&xb))
            });
            match r {
                // only usable if the integrator reproduces itself bit for bit on this target/backend
                Ok((a, b)) if bits_eq(&a, &b) => Some(a),
                _ => None,
            }
        });
        let ev = events.iter().find_map(|e| if let hook::Event::HmcStep { momenta, uniforms, n_chains: nc, dim: dd, logp_after, .. } = e { Some((momenta.clone(), uniforms.clone(), *nc, *dd, logp_after.clone())) } else { None });
        let (momenta, uniforms, nc, dd, logp_after) = match ev {
            Some(x) => x,
            None => {
                // the hook sits where the update draws its momenta: a step that returns normally
                // without reaching it performed no update at all
                if eps != 0.0 && eps.is_finite() {
                    rep.violation(&format!("{sig} step-returned-without-performing-an-update"), mon, case, json!({"cfg": cfg, "step": stepi, "step_size": eps, "L": l}));
                } else {
                    rep.inconclusive("hook event HmcStep not emitted");
                }
                return;
            }
        };
        if events.len() != 1 || nc != n_chains || dd != d || after.len() != n_chains * d {
            rep.violation(&format!("{sig} one-step-is-not-one-update-of-the-whole-batch"), mon, case, json!({"cfg": cfg, "events": events.len()}));
            return;
        }
        for row in 0..n_chains {
            let x = &before[row * d..(row + 1) * d];
            let p = &momenta[row * d..(row + 1) * d];
            let u = uniforms[row];
            let out = &after[row * d..(row + 1) * d];
            let (xn, pn) = refhmc::leapfrog(&target, x, p, eps, l);
            let h0 = refhmc::hamiltonian(&target, x, p);
            let h1 = refhmc::hamiltonian(&target, &xn, &pn);
            let delta = h0 - h1;
            // sensitivity: largest change over a few one-ulp perturbations of (x, p, eps)
            let mut sens_x = vec![0.0f64; d];
            let mut sens_delta = 0.0f64;
            for _ in 0..5 {
                let xp: Vec<f64> = x.iter().map(|v| jig(g, *v, beps)).collect();
                let pp: Vec<f64> = p.iter().map(|v| jig(g, *v, beps)).collect();
                let ep = jig(g, eps, beps);
                let (xq, pq) = refhmc::leapfrog(&target, &xp, &pp, ep, l);
                let dq = refhmc::hamiltonian(&target, &xp, &pp) - refhmc::hamiltonian(&target, &xq, &pq);
                for k in 0..d {
                    let s = (xq[k] - xn[k]).abs();
                    sens_x[k] = if s.is_nan() { f64::INFINITY } else { sens_x[k].max(s) };
                }
                let s = (dq - delta).abs();
                sens_delta = if s.is_nan() { f64::INFINITY } else { sens_delta.max(s) };
            }
            let xscale = xn.iter().chain(x.iter()).map(|v| v.abs()).fold(0.0, f64::max);
            let near_xn = (0..d).all(|k| {
                let t = 50.0 * sens_x[k] + 64.0 * beps * (l as f64 + 1.0) * xscale + 1e-300;
                (out[k] - xn[k]).abs() <= t || (out[k].is_nan() && xn[k].is_nan()) || t.is_infinite()
            });
            let limit = if beps > 1e-10 { 1e30 } else { 1e300 };
            let near_xn = near_xn || xn.iter().chain(pn.iter()).any(|v| v.abs() > limit);
            let stayed = bits_eq(out, x);
            if std::env::var("C02_DEBUG").is_ok() {
                eprintln!("step {stepi} row {row} stayed={stayed} near={near_xn} dev={:?} sens={:?} delta={delta}", (0..d).map(|k| out[k]-xn[k]).collect::<Vec<_>>(), sens_x);
            }
            let lnu = u.ln();
            let expect_move = lnu <= delta; // false for NaN delta
            let tol_delta = 50.0 * sens_delta + 256.0 * beps * (h0.abs() + h1.abs() + 1.0);
            let firm = delta.is_nan() || delta.is_infinite() || (lnu - delta).abs() > tol_delta;
            let detail = || {
                json!({"cfg": cfg, "step": stepi, "row": row, "x": x, "p": p, "u": u, "ln_u": fj(lnu), "H(x,p)-H(x',p')": fj(delta),
                "reference_x'": fjv(&xn), "position_after": fjv(out), "tolerance_on_energy_difference": fj(tol_delta)})
            };
            if !stayed && !near_xn {
                rep.violation(&format!("{sig} new-position-is-neither-x-nor-the-L-step-leapfrog-endpoint"), mon, case, detail());
                return;
            }
            if !stayed {
                match &own_endpoint {
                    Some(own) => {
                        let o = &own[row * d..(row + 1) * d];
                        if !bits_eq(out, o) {
                            rep.violation(&format!("{sig} moved-row-is-not-bit-for-bit-the-sampler's-own-leapfrog-endpoint"), mon, case,
                                json!({"cfg": cfg, "step": stepi, "row": row, "x": x, "position_after": fjv(out), "own_leapfrog_endpoint": fjv(o), "reference_x'": fjv(&xn)}));
                            return;
                        }
                        rep.count("moved_rows_bit_identical_to_own_endpoint");
                    }
                    None => rep.count("moved_rows_without_reproducible_own_endpoint"),
                }
            }
            if rejected_before[row] {
                rep.count("rows_checked_after_a_rejection");
            }
            if l == 0 {
                rep.count("rows_with_L_0");
            }
            if logp_after[row].is_nan() {
                // the sampler itself saw a NaN density at the end point: H' is NaN, the proposal must be rejected
                rep.count("rows_with_NaN_candidate_density");
                if !stayed {
                    rep.violation(&format!("{sig} moved-although-energy-difference-is-NaN"), mon, case, detail());
                    return;
                }
            }
            if !delta.is_finite() {
                rep.count("rows_nonfinite_reference_energy");
                if logp_after[row].is_finite() {
                    // only the f64 reference blew up (unstable trajectory, the f32/f64 paths have
                    // diverged chaotically): nothing can be said about this row
                    rep.inconclusive("reference energy non-finite on an unstable trajectory while the sampler's own values are finite");
                    rejected_before[row] = stayed;
                    continue;
                }
            }
            if stayed && near_xn {
                // x' indistinguishable from x (L = 0, tiny step): decision unobservable
                rep.held();
                rejected_before[row] = false;
                continue;
            }
            if !firm {
                rep.inconclusive("acceptance decision within rounding margin of the energy difference");
                rejected_before[row] = stayed;
                continue;
            }
            if expect_move != !stayed {
                let kind = if expect_move { "stayed-although-ln-u<=H-H'" } else { "moved-although-ln-u>H-H'" };
                rep.violation(&format!("{sig} {kind}"), mon, case, detail());
                return;
            }
            rep.count(if stayed { "rows_rejected" } else { "rows_accepted" });
            rep.max("max_position_deviation_over_tol", (0..d).map(|k| if stayed { 0.0 } else { (out[k] - xn[k]).abs() / (50.0 * sens_x[k] + 64.0 * beps * (l as f64 + 1.0) * xscale + 1e-300) }).fold(0.0, f64::max));
            rejected_before[row] = stayed;
            rep.held();
        }
    }
    // rows never influence one another: same seed, one row's start perturbed => other rows bit-identical
    if n_chains >= 2 {
        let j = g.below(n_chains);
        let mut inits2 = inits.clone();
        // either a nudge, or the row is sent far out where its log-density is astronomically
        // larger in magnitude than the others' (anything pooled over the batch then loses them)
        let far = g.chance(0.5);
        let big = if beps > 1e-10 { g.log_uniform(1e3, 1e6) } else { g.log_uniform(1e6, 1e12) };
        for v in inits2[j].iter_mut() {
            *v = if far { T::of(scale * big * (0.5 + g.f64()) * if g.bool() { 1.0 } else { -1.0 }) } else { *v + T::of(0.37 * scale) };
        }
        rep.count(if far { "row_independence_neighbour_sent_far_out" } else { "row_independence_neighbour_nudged" });
        let r = guard(|| {
            let mut a = HMC::<T, B, G>::new(target.clone(), inits.clone(), step, l).set_seed(seed);
            let mut b = HMC::<T, B, G>::new(target.clone(), inits2.clone(), step, l).set_seed(seed);
            a.step();
            a.step();
            b.step();
            b.step();
            (tv(&a.positions), tv(&b.positions))
        });
        rep.evals(2);
        match r {
            Err(m) => {
                rep.violation(&format!("{sig} panic"), mon, case, json!({"cfg": cfg, "panic": m}));
                return;
            }
            Ok((pa, pb)) => {
                for row in 0..n_chains {
                    if row != j && !bits_eq(&pa[row * d..(row + 1) * d], &pb[row * d..(row + 1) * d]) {
                        rep.violation(&format!("{sig} rows-influence-one-another"), mon, case,
                            json!({"cfg": cfg, "perturbed_row": j, "affected_row": row}));
                        return;
                    }
                }
                rep.held();
                rep.count("row_independence_pairs");
            }
        }
    }
    // time reversibility through the leapfrog wrapper
    {
        let x0: Vec<f64> = inits.iter().flatten().map(|v| v.f()).collect();
        let p0: Vec<f64> = (0..n_chains * d).map(|_| g.normal()).collect();
        let r = guard(|| {
            let pos = vt2::<B>(&x0, n_chains, d);
            let mom = vt2::<B>(&p0, n_chains, d);
            let (x1, p1, _) = sampler.verif_leapfrog(pos.clone(), mom.clone());
            let (x2, p2, _) = sampler.verif_leapfrog(x1.clone(), -p1.clone());
            (tv(&pos), tv(&mom), tv(&x1), tv(&p1), tv(&x2), tv(&p2))
        });
        rep.evals(2);
        match r {
            Err(m) => {
                rep.violation(&format!("HMC::leapfrog panic target={}", tname), mon, case, json!({"cfg": cfg, "panic": m}));
                return;
            }
            Ok((xq, pq, x1, p1, x2, p2)) => {
                for row in 0..n_chains {
                    let s = row * d..(row + 1) * d;
                    let (x, p) = (&xq[s.clone()], &pq[s.clone()]);
                    let (xr, pr) = refhmc::leapfrog(&target, x, p, eps, l);
                    // reference round trip from a one-ulp perturbed start: how much round-off is amplified
                    let mut amp = 0.0f64;
                    let mut fwd = vec![0.0f64; d];
                    for _ in 0..3 {
                        let xp: Vec<f64> = x.iter().map(|v| jig(g, *v, beps)).collect();
                        let pp: Vec<f64> = p.iter().map(|v| jig(g, *v, beps)).collect();
                        let ep = jig(g, eps, beps);
                        let (xa, pa) = refhmc::leapfrog(&target, &xp, &pp, ep, l);
                        let neg: Vec<f64> = pa.iter().map(|v| -jig(g, *v, beps)).collect();
                        let xa2: Vec<f64> = xa.iter().map(|v| jig(g, *v, beps)).collect();
                        let (xb, pb) = refhmc::leapfrog(&target, &xa2, &neg, eps, l);
                        for k in 0..d {
                            let e = (xb[k] - x[k]).abs().max((pb[k] + p[k]).abs());
                            amp = if e.is_nan() { f64::INFINITY } else { amp.max(e) };
                            let f = (xa[k] - xr[k]).abs().max((pa[k] - pr[k]).abs());
                            fwd[k] = if f.is_nan() { f64::INFINITY } else { fwd[k].max(f) };
                        }
                    }
                    let sc = x.iter().chain(p.iter()).chain(xr.iter()).chain(pr.iter()).map(|v| v.abs()).fold(0.0, f64::max);
                    let base = 64.0 * beps * (l as f64 + 1.0) * sc + 1e-300;
                    let limit = if beps > 1e-10 { 1e30 } else { 1e300 };
                    let overflow = xr.iter().chain(pr.iter()).any(|v| !v.is_finite() || v.abs() > limit)
                        || x1[s.clone()].iter().chain(p1[s.clone()].iter()).any(|v| !v.is_finite());
                    if overflow || x2[s.clone()].iter().chain(p2[s.clone()].iter()).any(|v| !v.is_finite() || v.abs() > limit) {
                        rep.inconclusive("trajectory leaves the backend's floating-point range");
                        continue;
                    }
                    // unstable step sizes amplify round-off legitimately and chaotically: the perturbation
                    // estimate is only trusted while the amplification is moderate
                    let sc0 = x.iter().chain(p.iter()).map(|v| v.abs()).fold(0.0, f64::max);
                    if !(amp <= 1e4 * beps * (1.0 + sc0)) {
                        rep.inconclusive("unstable step size: round-off amplified by more than 1e4 in the reference round trip");
                        continue;
                    }
                    for k in 0..d {
                        let tf = 50.0 * fwd[k] + base;
                        if tf.is_finite() && ((x1[s.clone()][k] - xr[k]).abs() > tf || (p1[s.clone()][k] - pr[k]).abs() > tf) {
                            rep.violation("HMC::leapfrog is-not-L-velocity-Verlet-steps", mon, case,
                                json!({"cfg": cfg, "row": row, "coordinate": k, "x'": x1[s.clone()][k], "ref_x'": xr[k], "p'": p1[s.clone()][k], "ref_p'": pr[k], "tol": tf}));
                            return;
                        }
                        let tb = 50.0 * amp + base;
                        if tb.is_finite() && ((x2[s.clone()][k] - x[k]).abs() > tb || (p2[s.clone()][k] + p[k]).abs() > tb) {
                            rep.violation("HMC::leapfrog not-time-reversible", mon, case,
                                json!({"cfg": cfg, "row": row, "coordinate": k, "x": x[k], "x_after_round_trip": x2[s.clone()][k], "p": p[k], "minus_p_after_round_trip": -p2[s.clone()][k], "tol": tb}));
                            return;
                        }
                        if tb.is_finite() {
                            rep.max("max_round_trip_error_over_tol", ((x2[s.clone()][k] - x[k]).abs().max((p2[s.clone()][k] + p[k]).abs())) / tb);
                        }
                    }
                    rep.held();
                    rep.count("reversibility_rows_checked");
                }
            }
        }
    }
    rep.sample(json!({"cfg": cfg, "final_positions_head": fjv(&tv(&sampler.positions)[..d.min(4)])}));
}

fn family<T, B>(ctx: &Ctx, rep: &mut Report, case: u64, g: &mut Sm64, bname: &str, beps: f64)
where
    T: Scalar,
    B: AutodiffBackend,
    StandardNormal: Distribution<T>,
    StandardUniform: Distribution<T>,
{
    // narrow targets: every legitimate step size is far below the scalar type's machine epsilon
    if g.chance(0.06) {
        let d = g.range(1, 6);
        let sc = g.log_uniform(1e-10, 1e-8);
        let t = DiagGauss::new((0..d).map(|_| g.log_uniform(0.5, 2.0) / (sc * sc)).collect(), vec![0.0; d]);
        rep.count("targets_narrower_than_machine_epsilon");
        return drive::<T, B, _>(ctx, rep, case, g, t, sc, bname, beps, usize::MAX);
    }
    match g.below(9) {
        0 => {
            let d = g.range(1, 16);
            let t = DiagGauss::new((0..d).map(|_| g.log_uniform(0.1, 10.0)).collect(), (0..d).map(|_| g.uniform(-1.0, 1.0)).collect());
            drive::<T, B, _>(ctx, rep, case, g, t, 1.0, bname, beps, usize::MAX)
        }
        1 => {
            let d = g.range(1, 8);
            let t = DenseGauss::random(g, d, 50.0);
            drive::<T, B, _>(ctx, rep, case, g, t, 1.0, bname, beps, usize::MAX)
        }
        2 => {
            // batch x dim < 32: burn-ndarray evaluates the reciprocal in the backward pass of log()
            // with an approximate SIMD instruction (rcp14, rel. error 6e-5) for tensors of >= 32
            // elements, alignment-dependent; below that size gradients are exact
            let t = StudentT { d: g.range(1, 16), nu: g.uniform(1.0, 8.0) };
            drive::<T, B, _>(ctx, rep, case, g, t, 1.0, bname, beps, 31)
        }
        3 => {
            let t = Quartic { d: g.range(1, 16) };
            drive::<T, B, _>(ctx, rep, case, g, t, 1.0, bname, beps, usize::MAX)
        }
        4 => {
            let t = Funnel { d: g.range(2, 8), s: 3.0 };
            drive::<T, B, _>(ctx, rep, case, g, t, 1.0, bname, beps, usize::MAX)
        }
        5 | 6 => {
            let (a, b) = (T::of(g.uniform(0.5, 2.0)), T::of(g.log_uniform(1.0, 100.0)));
            let t = LibPair { lib: Rosenbrock2D { a, b }, reference: RosenRef { a: a.f(), b: b.f() } };
            drive::<T, B, _>(ctx, rep, case, g, t, 0.3, bname, beps, usize::MAX)
        }
        7 => {
            let d = g.range(2, 16);
            let t = LibPair { lib: RosenNdLib, reference: RosenNdRef { d } };
            drive::<T, B, _>(ctx, rep, case, g, t, 0.2, bname, beps, usize::MAX)
        }
        _ => {
            // library Gaussian: its tensor constants are f32-quantised by burn's from_floats, so the
            // reference is built from the f32 images of the parameters and held to f32 accuracy
            let q = |x: f64| (x as f32) as f64;
            let (a, c) = (q(g.uniform(0.5, 3.0)), q(g.uniform(0.5, 3.0)));
            let b = q(g.uniform(-0.8, 0.8) * (a * c).sqrt());
            let mean = [q(g.uniform(-1.0, 1.0)), q(g.uniform(-1.0, 1.0))];
            let lib = DiffableGaussian2D::<T>::new([T::of(mean[0]), T::of(mean[1])], [[T::of(a), T::of(b)], [T::of(b), T::of(c)]]);
            let t = LibPair { lib, reference: Gauss2Ref { mean, cov: [[a, b], [b, c]] } };
            drive::<T, B, _>(ctx, rep, case, g, t, 1.0, bname, f32::EPSILON as f64, usize::MAX)
        }
    }
}

/// Rare acceptance draws: the sampler's public generator is searched for seeds whose stream, after
/// the momentum draws of the first step, delivers an acceptance uniform of exactly 0 or 2^-24 to
/// some row (f32 scalars: probability 2^-23 per draw, so a scan of a few million seeds finds
/// dozens). The search *assumes* the consumption order "n*d normals, then n uniforms"; the oracle
/// does not - it reads the uniform actually used from the hook - so a wrong assumption only means
/// that no rare draw is produced (visible in the evidence), never a false verdict.
fn rare_draw_case(ctx: &Ctx, rep: &mut Report, case: u64, g: &mut Sm64) {
    use rand::rngs::SmallRng;
    use rand::{Rng, SeedableRng};
    let mon = "raredraw";
    let n_chains = 32usize;
    let d = 1usize;
    let base = g.next_u64() >> 8;
    let budget = if ctx.thorough { 1u64 << 23 } else { 1u64 << 21 };
    let mut found = None;
    for s in 0..budget {
        let mut r = SmallRng::seed_from_u64(base.wrapping_add(s));
        for _ in 0..n_chains * d {
            let _: f32 = r.sample(StandardNormal);
        }
        let mut hit = false;
        for _ in 0..n_chains {
            let u: f32 = r.random();
            if u <= 6.0e-8 {
                hit = true;
            }
        }
        if hit {
            found = Some(base.wrapping_add(s));
            break;
        }
    }
    let seed = match found {
        Some(s) => s,
        None => {
            rep.inconclusive("no seed with an acceptance uniform <= 2^-24 found in the scan budget");
            return;
        }
    };
    // unstable step on a standard normal: energy differences of -20 .. -1e3, all finite
    let target = DiagGauss::new(vec![1.0], vec![0.0]);
    let eps = *g.choose(&[2.05f32, 2.2, 2.6]);
    let l = g.range(1, 3);
    let inits: Vec<Vec<f32>> = (0..n_chains).map(|_| vec![(g.normal() * 1.5) as f32]).collect();
    let cfg = json!({"target": "standard normal", "T": "f32", "backend": "NdArray<f32>", "n_chains": n_chains, "L": l, "step_size": eps, "seed": seed});
    rep.distinct(("raredraw", seed, l, case));
    let mut sampler = HMC::<f32, B32, DiagGauss>::new(target.clone(), inits, eps, l).set_seed(seed);
    let before = tv(&sampler.positions);
    hook::enable();
    let r = guard(|| sampler.step());
    let events = hook::take();
    hook::disable();
    rep.eval();
    if let Err(m) = r {
        rep.violation("HMC::step panic", mon, case, json!({"cfg": cfg, "panic": m}));
        return;
    }
    let after = tv(&sampler.positions);
    let (momenta, uniforms) = match events.first() {
        Some(hook::Event::HmcStep { momenta, uniforms, .. }) => (momenta.clone(), uniforms.clone()),
        _ => {
            rep.inconclusive("hook event HmcStep not emitted");
            return;
        }
    };
    for row in 0..n_chains {
        let u = uniforms[row];
        if u > 6.0e-8 {
            continue;
        }
        rep.count(if u == 0.0 { "rows_with_u_exactly_0" } else { "rows_with_u_2^-24" });
        let (x, p) = (&before[row..row + 1], &momenta[row..row + 1]);
        let (xn, pn) = refhmc::leapfrog(&target, x, p, eps as f64, l);
        let delta = refhmc::hamiltonian(&target, x, p) - refhmc::hamiltonian(&target, &xn, &pn);
        let lnu = u.ln();
        let stayed = after[row].to_bits() == before[row].to_bits();
        let firm = delta.is_finite() && (lnu - delta).abs() > 1e-3 * (1.0 + delta.abs());
        if !firm {
            rep.inconclusive("acceptance decision within rounding margin of the energy difference");
            continue;
        }
        let expect_move = lnu <= delta;
        if expect_move == stayed {
            let kind = if expect_move { "stayed-although-ln-u<=H-H'" } else { "moved-although-ln-u>H-H'" };
            rep.violation(&format!("HMC::step target=DiagGauss {kind} (rare acceptance draw)"), mon, case,
                json!({"cfg": cfg, "row": row, "u": u, "ln_u": fj(lnu), "H(x,p)-H(x',p')": delta, "x": x, "reference_x'": xn, "position_after": after[row]}));
            return;
        }
        rep.held();
    }
    rep.sample(json!({"monitor": mon, "cfg": cfg}));
}

pub fn run(ctx: &Ctx, rep: &mut Report) {
    for c in ctx.case_ids("raredraw", 8, 512) {
        let mut g = ctx.rng("raredraw", c);
        rare_draw_case(ctx, rep, c, &mut g);
    }
    let e32 = f32::EPSILON as f64;
    let e64 = f64::EPSILON;
    for c in ctx.case_ids("shadow", 400, 300_000) {
        let mut g = ctx.rng("shadow", c);
        match c % 4 {
            0 => family::<f64, B64>(ctx, rep, c, &mut g, "NdArray<f64>", e64),
            1 => family::<f32, B32>(ctx, rep, c, &mut g, "NdArray<f32>", e32),
            2 => family::<f32, B64>(ctx, rep, c, &mut g, "NdArray<f64>", e64),
            _ => family::<f64, B32>(ctx, rep, c, &mut g, "NdArray<f32>", e32),
        }
    }
}
