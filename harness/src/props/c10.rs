//! C10 — progress mode returns the same draws, always terminates, in any precision; a reporter
//! that stops listening changes neither the draws nor termination of the workers.
//!
//! Termination is decided on the *logical clock* of the protocol (hook events with global
//! sequence numbers): every worker sends exactly one final message and finishes, and the reporter
//! leaves its loop within 2*n_chains + 8 polling iterations after the last worker finished. The
//! hook's online guard ends the process with a distinguished status if that bound is exceeded
//! while the run is still going (a stuck reporter is a violation on polling iterations, never on
//! wall-clock time).

use crate::props::c02::Scalar;
use crate::props::c09::DetCond;
use crate::targets::*;
use crate::util::*;
use burn::backend::{Autodiff, NdArray};
use burn::tensor::backend::AutodiffBackend;
use burn::tensor::Tensor;
use mini_mcmc::core::{run_chain, run_chain_progress, ChainRunner, HasChains, MarkovChain};
use mini_mcmc::distributions::{IsotropicGaussian, Proposal};
use mini_mcmc::gibbs::GibbsSampler;
use mini_mcmc::hmc::HMC;
use mini_mcmc::metropolis_hastings::MetropolisHastings;
use mini_mcmc::nuts::{NUTSChain, NUTS};
use mini_mcmc::stats::{ChainStats, RunStats};
use mini_mcmc::verif as hook;
use mini_mcmc::verif::Proto;
use ndarray::Array3;
use rand_distr::{Distribution, Exp1, StandardNormal, StandardUniform};
use serde_json::json;
use std::sync::{mpsc, Arc, Mutex};

type B32 = Autodiff<NdArray<f32>>;
type B64 = Autodiff<NdArray<f64>>;

#[derive(Clone, Debug)]
pub struct PChain {
    pub state: Vec<f64>,
    pub id: usize,
    pub steps: u64,
    pub base: u64,
    pub total: u64,
    pub sleep_us: u64,
    /// extra duration of the very first transition of a run (an expensive first evaluation)
    pub first_step_us: u64,
    pub order: Arc<Mutex<Vec<usize>>>,
}
fn pstate(steps: u64, id: usize, dim: usize) -> Vec<f64> {
    (0..dim).map(|j| match j { 0 => steps as f64, 1 => id as f64, _ => ((steps * 13 + id as u64 * 5 + j as u64) % 97) as f64 }).collect()
}
impl MarkovChain<f64> for PChain {
    fn step(&mut self) -> &Vec<f64> {
        self.steps += 1;
        if self.sleep_us > 0 {
            std::thread::sleep(std::time::Duration::from_micros(self.sleep_us));
        }
        if self.first_step_us > 0 && self.steps == self.base + 1 {
            std::thread::sleep(std::time::Duration::from_micros(self.first_step_us));
        }
        self.state = pstate(self.steps, self.id, self.state.len());
        if self.steps == self.base + self.total {
            self.order.lock().unwrap().push(self.id);
        }
        &self.state
    }
    fn current_state(&self) -> &Vec<f64> {
        &self.state
    }
}
pub struct PSampler {
    pub chains: Vec<PChain>,
}
impl HasChains<f64> for PSampler {
    type Chain = PChain;
    fn chains_mut(&mut self) -> &mut Vec<PChain> {
        &mut self.chains
    }
}

fn stats_eq(a: &RunStats, b: &RunStats) -> bool {
    let f = |x: f32, y: f32| (x.is_nan() && y.is_nan()) || x.to_bits() == y.to_bits() || x == y;
    let g = |p: &mini_mcmc::stats::BasicStats, q: &mini_mcmc::stats::BasicStats| f(p.min, q.min) && f(p.max, q.max) && f(p.median, q.median) && f(p.mean, q.mean) && f(p.std, q.std);
    g(&a.ess, &b.ess) && g(&a.rhat, &b.rhat)
}
fn stats_json(a: &RunStats) -> serde_json::Value {
    let b = |p: &mini_mcmc::stats::BasicStats| json!({"min": fj(p.min as f64), "max": fj(p.max as f64), "median": fj(p.median as f64), "mean": fj(p.mean as f64), "std": fj(p.std as f64)});
    json!({"ess": b(&a.ess), "rhat": b(&a.rhat)})
}

/// offline checker over the protocol events of one run_progress call
fn check_protocol(rep: &mut Report, sig: &str, mon: &str, case: u64, cfg: &serde_json::Value, events: &[(u64, Proto)], n_chains: usize, total: u64, has_reporter: bool) -> bool {
    let finals: Vec<u64> = events.iter().filter_map(|(_, e)| if let Proto::Sent { n, last: true } = e { Some(*n) } else { None }).collect();
    let done = events.iter().filter(|(_, e)| matches!(e, Proto::WorkerDone)).count();
    let exits = events.iter().filter(|(_, e)| matches!(e, Proto::ReporterExit)).count();
    let intermediate = events.iter().filter(|(_, e)| matches!(e, Proto::Sent { last: false, .. })).count();
    rep.count_n("intermediate_messages_observed", intermediate as u64);
    let ev_summary = || json!({"final_messages": finals, "workers_done": done, "reporter_exits": exits, "events": events.len()});
    if finals.len() != n_chains || finals.iter().any(|n| *n != total) {
        rep.violation(&format!("{sig} not-exactly-one-final-message-with-n==total-per-chain"), mon, case, json!({"cfg": cfg, "protocol": ev_summary()}));
        return false;
    }
    if done != n_chains {
        rep.violation(&format!("{sig} not-every-worker-finished"), mon, case, json!({"cfg": cfg, "protocol": ev_summary()}));
        return false;
    }
    if has_reporter {
        if exits != 1 {
            rep.violation(&format!("{sig} reporter-did-not-exit-exactly-once-before-return"), mon, case, json!({"cfg": cfg, "protocol": ev_summary()}));
            return false;
        }
        let last_done = events.iter().filter(|(_, e)| matches!(e, Proto::WorkerDone)).map(|(s, _)| *s).max().unwrap_or(0);
        let exit_seq = events.iter().find(|(_, e)| matches!(e, Proto::ReporterExit)).map(|(s, _)| *s).unwrap_or(u64::MAX);
        let after = events.iter().filter(|(s, e)| matches!(e, Proto::ReporterIter { .. }) && *s > last_done && *s < exit_seq).count();
        rep.max("max_reporter_iterations_after_last_worker_finished", after as f64);
        if after > 2 * n_chains + 8 {
            rep.violation(&format!("{sig} reporter-needs-too-many-polling-iterations-after-workers-finished"), mon, case,
                json!({"cfg": cfg, "iterations_after_last_worker": after, "bound": 2 * n_chains + 8}));
            return false;
        }
        let mut prev = 0;
        for (_, e) in events {
            if let Proto::ReporterIter { n_finished, n_chains: nc } = e {
                if *n_finished < prev || *nc != n_chains {
                    rep.violation(&format!("{sig} reporter-finished-count-not-monotone"), mon, case, json!({"cfg": cfg}));
                    return false;
                }
                prev = *n_finished;
            }
        }
    }
    true
}

fn counting_case(ctx: &Ctx, rep: &mut Report, case: u64, g: &mut Sm64) {
    let mon = "counting";
    let sig = "ChainRunner::run_progress";
    let n_chains = *g.choose(&[1usize, 2, 3, 4, 5, 6, 7, 8, 11, 16, 23, 32, 48]);
    let dim = g.range(1, 4);
    let n_collect = *g.choose(&[4usize, 5, 16, 64]);
    let n_discard = *g.choose(&[0usize, 1, 7]);
    let total = (n_collect + n_discard) as u64;
    let profile = if case % 12 == 5 { "first transition takes 1.1 s" } else { *g.choose(&["uniform", "one straggler", "slow first", "slow last", "random", "instant"]) };
    let long = profile == "one straggler" && case % 3 == 0; // > 2 s so that once-per-second reports flow
    let straggler = g.below(n_chains);
    let order = Arc::new(Mutex::new(vec![]));
    let base_us = 150u64;
    let chains: Vec<PChain> = (0..n_chains)
        .map(|id| {
            let sleep_us = match profile {
                "uniform" => base_us,
                "one straggler" => if id == straggler { if long { 2_300_000 / total } else { 40 * base_us } } else { base_us / 3 },
                "slow first" => if id == 0 { 20 * base_us } else { base_us / 3 },
                "slow last" => if id == n_chains - 1 { 20 * base_us } else { base_us / 3 },
                "random" => g.below(1500) as u64,
                _ => 0,
            };
            let first_step_us = if profile == "first transition takes 1.1 s" && id == straggler { 1_100_000 } else { 0 };
            PChain { state: pstate(0, id, dim), id, steps: 0, base: 0, total, sleep_us, first_step_us, order: order.clone() }
        })
        .collect();
    let cfg = json!({"n_chains": n_chains, "dim": dim, "n_collect": n_collect, "n_discard": n_discard, "profile": profile, "long_straggler": long});
    println!("C10 case {case} counting {cfg}");
    rep.distinct(("counting", n_chains, n_collect, n_discard, profile, long));
    let mut s = PSampler { chains };
    hook::proto_enable(8);
    // injected delays after protocol events (between the protocol's own synchronisation points)
    let jitter_us = *g.choose(&[0u64, 0, 300, 3000]);
    hook::proto_jitter(g.next_u64(), jitter_us);
    rep.count(&format!("injected_delay_max_us[{jitter_us}]"));
    // the call may come from inside a small rayon pool (fewer pool threads than chains)
    let pool_threads = *g.choose(&[0usize, 0, 1, 2, 3]);
    rep.count(&format!("called_inside_rayon_pool_of[{pool_threads}]"));
    // chains of this workload report or finish within a few polling intervals: 80 idle polls = a stuck run
    hook::proto_idle_limit(240);
    let r = guard(|| {
        if pool_threads == 0 {
            s.run_progress(n_collect, n_discard).map_err(|e| format!("{e}"))
        } else {
            let pool = rayon::ThreadPoolBuilder::new().num_threads(pool_threads).build().unwrap();
            pool.install(|| s.run_progress(n_collect, n_discard).map_err(|e| format!("{e}")))
        }
    });
    hook::proto_jitter(1, 0);
    let events = hook::proto_take();
    rep.eval();
    let (arr, stats) = match r {
        Ok(Ok(x)) => x,
        Ok(Err(e)) => {
            rep.violation(&format!("{sig} returned-error"), mon, case, json!({"cfg": cfg, "err": e}));
            return;
        }
        Err(m) => {
            rep.violation(&format!("{sig} panic"), mon, case, json!({"cfg": cfg, "panic": m}));
            return;
        }
    };
    if !check_protocol(rep, sig, mon, case, &cfg, &events, n_chains, total, true) {
        return;
    }
    // same draws as run(): the counting chain makes every cell self-identifying
    if arr.shape() != [n_chains, n_collect, dim] {
        rep.violation(&format!("{sig} shape"), mon, case, json!({"cfg": cfg, "shape": arr.shape()}));
        return;
    }
    for c in 0..n_chains {
        for k in 0..n_collect {
            let exp = pstate((n_discard + k + 1) as u64, c, dim);
            let row: Vec<f64> = (0..dim).map(|j| arr[[c, k, j]]).collect();
            if !bits_eq(&row, &exp) {
                rep.violation(&format!("{sig} draws-differ-from-run"), mon, case, json!({"cfg": cfg, "chain": c, "k": k, "got": row, "expected": exp}));
                return;
            }
        }
        if s.chains[c].steps != total {
            rep.violation(&format!("{sig} number-of-transitions"), mon, case, json!({"cfg": cfg, "chain": c, "steps": s.chains[c].steps}));
            return;
        }
    }
    let want = RunStats::from(arr.view());
    if !stats_eq(&stats, &want) {
        rep.violation(&format!("{sig} diagnostics-differ-from-those-of-the-returned-draws"), mon, case, json!({"cfg": cfg, "returned": stats_json(&stats), "from_draws": stats_json(&want)}));
        return;
    }
    let ord = order.lock().unwrap().clone();
    rep.distinct(("completion-order", ord.clone()));
    rep.distinct_in("completion orders of the chain workers", (n_chains, ord.clone()));
    rep.count(&format!("chains[{n_chains}]"));
    rep.count(&format!("profile[{profile}]"));
    rep.held();
    rep.sample(json!({"cfg": cfg, "completion_order_head": ord.iter().take(8).collect::<Vec<_>>(), "protocol_events": events.len()}));
}

fn arr_bits<T: Bits>(a: &Array3<T>) -> Vec<u64> {
    let mut v: Vec<u64> = a.shape().iter().map(|d| *d as u64).collect();
    v.extend(a.iter().map(|x| x.bits()));
    v
}

#[derive(Clone, Debug)]
struct IntTarget;
impl mini_mcmc::distributions::Target<i32, f64> for IntTarget {
    fn unnorm_logp(&self, position: &[i32]) -> f64 {
        -0.05 * position.iter().map(|x| (*x as f64) * (*x as f64)).sum::<f64>()
    }
}
#[derive(Clone, Debug)]
struct IntWalk {
    rng: rand::rngs::SmallRng,
}
impl Proposal<i32, f64> for IntWalk {
    fn sample(&mut self, current: &[i32]) -> Vec<i32> {
        use rand::Rng;
        current.iter().map(|x| x + self.rng.random_range(-2..=2)).collect()
    }
    fn logp(&self, _f: &[i32], _t: &[i32]) -> f64 {
        0.0
    }
    fn set_seed(mut self, seed: u64) -> Self {
        use rand::SeedableRng;
        self.rng = rand::rngs::SmallRng::seed_from_u64(seed);
        self
    }
}

fn mh_gibbs_case(ctx: &Ctx, rep: &mut Report, case: u64, g: &mut Sm64) {
    let mon = "samplers";
    let n_chains = *g.choose(&[1usize, 2, 5, 6, 9, 16]);
    let dim = g.range(1, 3);
    let n_collect = *g.choose(&[4usize, 5, 16, 64]);
    let n_discard = *g.choose(&[0usize, 1, 7]);
    let seed = g.next_u64() >> 1;
    let kind = g.below(4);
    let kname = ["MH f64", "MH f32", "MH i32", "Gibbs f64"][kind];
    let cfg = json!({"sampler": kname, "n_chains": n_chains, "dim": dim, "n_collect": n_collect, "n_discard": n_discard, "seed": seed});
    println!("C10 case {case} samplers {cfg}");
    rep.distinct(("samplers", kind, n_chains, dim, n_collect, n_discard));
    let total = (n_collect + n_discard) as u64;
    macro_rules! compare {
        ($mk:expr, $sig:expr) => {{
            let sig: &str = $sig;
            hook::proto_enable(8);
            hook::proto_jitter(seed, if seed % 3 == 0 { 1500 } else { 0 });
            let warm = (seed % 4) as usize; // 0: fresh samplers; otherwise both twins have already been run
            let r = guard(|| {
                let mut a = $mk;
                let mut b = $mk;
                if warm > 0 {
                    let _ = a.run(warm, 1).unwrap();
                    let _ = b.run(warm, 1).unwrap();
                }
                let plain = a.run(n_collect, n_discard).unwrap();
                hook::proto_idle_limit(240);
                let (prog, stats) = if seed % 5 < 2 {
                    let pool = rayon::ThreadPoolBuilder::new().num_threads(1 + (seed % 2) as usize).build().unwrap();
                    pool.install(|| b.run_progress(n_collect, n_discard).map_err(|e| format!("{e}")).unwrap())
                } else {
                    b.run_progress(n_collect, n_discard).map_err(|e| format!("{e}")).unwrap()
                };
                let want = RunStats::from(prog.view());
                (arr_bits(&plain), arr_bits(&prog), stats, want)
            });
            hook::proto_jitter(1, 0);
            let events = hook::proto_take();
            rep.evals(2);
            match r {
                Err(m) => {
                    rep.violation(&format!("{sig} panic"), mon, case, json!({"cfg": cfg, "panic": m}));
                    return;
                }
                Ok((plain, prog, stats, want)) => {
                    if !check_protocol(rep, sig, mon, case, &cfg, &events, n_chains, total, true) {
                        return;
                    }
                    if plain != prog {
                        rep.violation(&format!("{sig} draws-differ-from-run"), mon, case, json!({"cfg": cfg}));
                        return;
                    }
                    if !stats_eq(&stats, &want) {
                        rep.violation(&format!("{sig} diagnostics-differ-from-those-of-the-returned-draws"), mon, case,
                            json!({"cfg": cfg, "returned": stats_json(&stats), "from_draws": stats_json(&want)}));
                        return;
                    }
                    rep.held();
                }
            }
        }};
    }
    match kind {
        0 => {
            let inits: Vec<Vec<f64>> = (0..n_chains).map(|_| (0..dim).map(|_| g.normal()).collect()).collect();
            compare!(MetropolisHastings::new(IsotropicGaussian::<f64>::new(1.2), IsotropicGaussian::<f64>::new(0.7), inits.clone()).seed(seed), "MetropolisHastings<f64>::run_progress")
        }
        1 => {
            let inits: Vec<Vec<f32>> = (0..n_chains).map(|_| (0..dim).map(|_| g.normal() as f32).collect()).collect();
            compare!(MetropolisHastings::new(IsotropicGaussian::<f32>::new(1.2), IsotropicGaussian::<f32>::new(0.7), inits.clone()).seed(seed), "MetropolisHastings<f32>::run_progress")
        }
        2 => {
            use rand::SeedableRng;
            let inits: Vec<Vec<i32>> = (0..n_chains).map(|_| (0..dim).map(|_| g.range(0, 6) as i32 - 3).collect()).collect();
            compare!(MetropolisHastings::new(IntTarget, IntWalk { rng: rand::rngs::SmallRng::seed_from_u64(1) }, inits.clone()).seed(seed), "MetropolisHastings<i32>::run_progress")
        }
        _ => {
            let inits: Vec<Vec<f64>> = (0..n_chains).map(|_| (0..dim).map(|_| g.normal()).collect()).collect();
            compare!(GibbsSampler::new(DetCond, inits.clone()).set_seed(seed), "GibbsSampler::run_progress")
        }
    }
    rep.count("mh_gibbs_cases");
}

fn t3<B: burn::tensor::backend::Backend>(t: &Tensor<B, 3>) -> (Vec<usize>, Vec<f64>) {
    (t.dims().to_vec(), t.to_data().iter::<f64>().collect())
}

fn grad_case<T, B>(ctx: &Ctx, rep: &mut Report, case: u64, g: &mut Sm64, bname: &str)
where
    T: Scalar,
    B: AutodiffBackend + Send,
    StandardNormal: Distribution<T>,
    StandardUniform: Distribution<T>,
    Exp1: Distribution<T>,
{
    let mon = "precision";
    let n_chains = *g.choose(&[1usize, 2, 3, 6, 7]);
    let dim = g.range(1, 3);
    let n_collect = *g.choose(&[4usize, 5, 16, 63, 64, 65, 128]);
    let n_discard = *g.choose(&[0usize, 1, 7]);
    let seed = g.next_u64() >> 1;
    let nuts = g.bool();
    let name = if nuts { "NUTS" } else { "HMC" };
    let cfg = json!({"sampler": name, "T": T::NAME, "backend": bname, "n_chains": n_chains, "dim": dim, "n_collect": n_collect, "n_discard": n_discard, "seed": seed});
    println!("C10 case {case} precision {cfg}");
    rep.distinct(("precision", name, T::NAME, bname.to_string(), n_chains, dim, n_collect, n_discard));
    rep.count(&format!("combo[{name} {} on {bname}]", T::NAME));
    let target = DiagGauss::new((0..dim).map(|i| 0.7 + 0.4 * i as f64).collect(), vec![0.0; dim]);
    let inits: Vec<Vec<T>> = (0..n_chains).map(|_| (0..dim).map(|_| T::of(g.normal())).collect()).collect();
    let total = (n_collect + n_discard) as u64;
    let sig = format!("{name}::run_progress T={} backend={bname}", T::NAME);
    hook::proto_enable(8);
    let r = guard(|| {
        let warm = (seed % 3) as usize; // 0: fresh samplers; otherwise both twins have already been run
        if nuts {
            let mut a = NUTS::<T, B, DiagGauss>::new(target.clone(), inits.clone(), T::of(0.8)).set_seed(seed);
            let mut b = NUTS::<T, B, DiagGauss>::new(target.clone(), inits.clone(), T::of(0.8)).set_seed(seed);
            if warm > 0 {
                let _ = a.run(warm + 1, 3);
                let _ = b.run(warm + 1, 3);
            }
            let plain = t3(&a.run(n_collect + 1, n_discard));
            hook::proto_idle_limit(240);
            let (prog, stats) = if seed % 5 < 2 {
                // called from inside a rayon pool with fewer threads than chains
                let pool = rayon::ThreadPoolBuilder::new().num_threads(1 + (seed % 2) as usize).build().unwrap();
                pool.install(|| b.run_progress(n_collect, n_discard).map_err(|e| format!("{e}")).unwrap())
            } else {
                b.run_progress(n_collect, n_discard).map_err(|e| format!("{e}")).unwrap()
            };
            (plain, t3(&prog), stats)
        } else {
            let mut a = HMC::<T, B, DiagGauss>::new(target.clone(), inits.clone(), T::of(0.2), 3).set_seed(seed);
            let mut b = HMC::<T, B, DiagGauss>::new(target.clone(), inits.clone(), T::of(0.2), 3).set_seed(seed);
            if warm > 0 {
                let _ = a.run(warm, 1);
                let _ = b.run(warm, 1);
            }
            let plain = t3(&a.run(n_collect, n_discard));
            let (prog, stats) = b.run_progress(n_collect, n_discard).map_err(|e| format!("{e}")).unwrap();
            (plain, t3(&prog), stats)
        }
    });
    let events = hook::proto_take();
    rep.evals(2);
    let (plain, prog, stats) = match r {
        Ok(x) => x,
        Err(m) => {
            rep.violation(&format!("{sig} panic"), mon, case, json!({"cfg": cfg, "panic": m}));
            return;
        }
    };
    if nuts && !check_protocol(rep, &sig, mon, case, &cfg, &events, n_chains, total, true) {
        return;
    }
    if prog.0 != [n_chains, n_collect, dim] {
        rep.violation(&format!("{sig} shape"), mon, case, json!({"cfg": cfg, "shape": prog.0}));
        return;
    }
    let shift = if nuts { 1 } else { 0 };
    let n_plain = n_collect + shift;
    for c in 0..n_chains {
        for k in 0..n_collect {
            for j in 0..dim {
                let a = plain.1[(c * n_plain + k + shift) * dim + j];
                let b = prog.1[(c * n_collect + k) * dim + j];
                if a.to_bits() != b.to_bits() {
                    rep.violation(&format!("{sig} draws-differ-from-run"), mon, case, json!({"cfg": cfg, "chain": c, "k": k, "j": j, "run": a, "run_progress": b}));
                    return;
                }
            }
        }
    }
    let arr = Array3::from_shape_vec((n_chains, n_collect, dim), prog.1.iter().map(|x| *x as f32).collect()).unwrap();
    let want = RunStats::from(arr.view());
    if !stats_eq(&stats, &want) {
        rep.violation(&format!("{sig} diagnostics-differ-from-those-of-the-returned-draws"), mon, case, json!({"cfg": cfg, "returned": stats_json(&stats), "from_draws": stats_json(&want)}));
        return;
    }
    rep.held();
}

/// receiver dropped before / during / after the run of a chain worker
fn receiver_case(ctx: &Ctx, rep: &mut Report, case: u64, g: &mut Sm64) {
    let mon = "receiver";
    let when = *g.choose(&["before the call", "after the k-th message", "after the call", "never read"]);
    let nuts = g.chance(0.35);
    let n_collect = *g.choose(&[4usize, 9, 30]);
    let n_discard = *g.choose(&[0usize, 3]);
    let total = (n_collect + n_discard) as u64;
    let slow = when == "after the k-th message";
    let cfg = json!({"worker": if nuts { "NUTSChain::run_progress (via verif wrapper)" } else { "run_chain_progress" }, "receiver_dropped": when, "n_collect": n_collect, "n_discard": n_discard});
    println!("C10 case {case} receiver {cfg}");
    rep.distinct(("receiver", nuts, when, n_collect, n_discard));
    rep.count(&format!("receiver_dropped[{when}]"));
    let (tx, rx) = mpsc::channel::<ChainStats>();
    let k = g.range(1, 2);
    let rx_thread = match when {
        "before the call" => {
            drop(rx);
            None
        }
        "after the k-th message" => Some(std::thread::spawn(move || {
            let mut got = 0;
            while got < k {
                if rx.recv().is_err() {
                    break;
                }
                got += 1;
            }
            drop(rx);
            got
        })),
        _ => Some(std::thread::spawn(move || {
            // keep the receiver alive (unread) until told; dropping happens when this thread ends
            std::thread::sleep(std::time::Duration::from_millis(if slow { 10 } else { 300 }));
            let n = rx.try_iter().count();
            drop(rx);
            n
        })),
    };
    hook::proto_enable(0);
    rep.evals(2);
    if nuts {
        let target = Slow { inner: DiagGauss::new(vec![1.0, 2.0], vec![0.0, 0.0]), micros: if slow { 2_400_000 / (total * 6) } else { 0 } };
        let seed = g.next_u64();
        let r = guard(|| {
            let mut a = NUTSChain::<f64, B64, _>::new(target.clone(), vec![0.3, -0.2], 0.8).set_seed(seed);
            let mut b = NUTSChain::<f64, B64, _>::new(target.clone(), vec![0.3, -0.2], 0.8).set_seed(seed);
            let (tx2, _rx2) = mpsc::channel::<ChainStats>();
            let undisturbed = a.verif_run_progress(n_collect, n_discard, tx2).map_err(|e| format!("{e}")).unwrap();
            let disturbed = b.verif_run_progress(n_collect, n_discard, tx).map_err(|e| format!("{e}")).unwrap();
            (tv(&undisturbed), tv(&disturbed))
        });
        let events = hook::proto_take();
        if let Some(h) = rx_thread {
            let _ = h.join();
        }
        match r {
            Err(m) => rep.violation("NUTSChain::run_progress panic-when-receiver-dropped", mon, case, json!({"cfg": cfg, "panic": m})),
            Ok((u, d)) => {
                let done = events.iter().filter(|(_, e)| matches!(e, Proto::WorkerDone)).count();
                if !bits_eq(&u, &d) {
                    rep.violation("NUTSChain::run_progress draws-change-when-receiver-dropped", mon, case, json!({"cfg": cfg}));
                } else if done != 2 {
                    rep.violation("NUTSChain::run_progress worker-did-not-finish", mon, case, json!({"cfg": cfg, "workers_done": done}));
                } else {
                    rep.held();
                }
            }
        }
    } else {
        let order = Arc::new(Mutex::new(vec![]));
        let mk = |sleep_us: u64| PChain { state: pstate(0, 3, 2), id: 3, steps: 0, base: 0, total, sleep_us, first_step_us: 0, order: order.clone() };
        let r = guard(|| {
            let mut a = mk(0);
            let mut b = mk(if slow { 2_400_000 / total } else { 50 });
            let undisturbed = run_chain(&mut a, n_collect, n_discard);
            let disturbed = run_chain_progress(&mut b, n_collect, n_discard, tx).unwrap();
            (undisturbed, disturbed, b.steps)
        });
        let events = hook::proto_take();
        let delivered = rx_thread.map(|h| h.join().unwrap_or(0)).unwrap_or(0);
        match r {
            Err(m) => rep.violation("run_chain_progress panic-when-receiver-dropped", mon, case, json!({"cfg": cfg, "panic": m})),
            Ok((u, d, steps)) => {
                let done = events.iter().filter(|(_, e)| matches!(e, Proto::WorkerDone)).count();
                let sent = events.iter().filter(|(_, e)| matches!(e, Proto::Sent { .. })).count();
                rep.count_n("messages_sent_to_a_faulty_receiver", sent as u64);
                if u != d {
                    rep.violation("run_chain_progress draws-change-when-receiver-dropped", mon, case, json!({"cfg": cfg}));
                } else if done != 1 || steps != total {
                    rep.violation("run_chain_progress worker-did-not-finish", mon, case, json!({"cfg": cfg, "workers_done": done, "steps": steps}));
                } else {
                    rep.held();
                    if case < 40 {
                        rep.sample(json!({"cfg": cfg, "messages_sent": sent, "messages_received_before_drop": delivered}));
                    }
                }
            }
        }
    }
}

pub fn run(ctx: &Ctx, rep: &mut Report) {
    for c in ctx.case_ids("counting", 48, 3200) {
        let mut g = ctx.rng("counting", c);
        counting_case(ctx, rep, c, &mut g);
    }
    for c in ctx.case_ids("samplers", 16, 1280) {
        let mut g = ctx.rng("samplers", c);
        mh_gibbs_case(ctx, rep, c, &mut g);
    }
    for c in ctx.case_ids("precision", 32, 1280) {
        let mut g = ctx.rng("precision", c);
        match c % 4 {
            0 => grad_case::<f32, B32>(ctx, rep, c, &mut g, "NdArray<f32>"),
            1 => grad_case::<f64, B64>(ctx, rep, c, &mut g, "NdArray<f64>"),
            2 => grad_case::<f64, B32>(ctx, rep, c, &mut g, "NdArray<f32>"),
            _ => grad_case::<f32, B64>(ctx, rep, c, &mut g, "NdArray<f64>"),
        }
    }
    for c in ctx.case_ids("receiver", 32, 1280) {
        let mut g = ctx.rng("receiver", c);
        receiver_case(ctx, rep, c, &mut g);
    }
}
