//! C11 — split R-hat = sqrt(var+/W) of the half-chains; run summary statistics.

use crate::refstats;
use crate::util::*;
use mini_mcmc::stats::{basic_stats, split_rhat_mean_ess, RunStats};
use ndarray::{Array1, Array3};
use serde_json::json;

#[derive(Clone, Copy, Debug, PartialEq, Eq, Hash)]
pub enum Family {
    Iid,
    Ar1,
    Trend,
    Bimodal,
    Disagree,
    Constant,
    NearConstant,
}

pub struct Gen {
    pub c: usize,
    pub n: usize,
    pub p: usize,
    pub families: Vec<Family>,
    pub phis: Vec<f64>,
    pub loc: Vec<f64>,
    pub scale: Vec<f64>,
    /// data[c][t][p], f32-quantised
    pub data: Vec<Vec<Vec<f32>>>,
}

pub fn pick_n(g: &mut Sm64, lo: usize, max: usize) -> usize {
    (match g.below(10) {
        0 => lo,
        1 => lo + 1,
        2 => g.range(lo, 12),
        3 | 4 => g.range(12, 260),
        5 => g.range(196, 208),
        6 => *g.choose(&[255usize, 256, 257, 511, 512, 513, 1023, 1024, 1025, 127, 128, 129, 199, 200, 201, 202, 203, 997, 2047, 2048, 2049]),
        7 | 8 => g.range(260.min(max), max.min(1500)),
        _ => g.range(1500.min(max), max),
    })
    .min(max)
}

pub fn generate(g: &mut Sm64, c: usize, n: usize, p: usize, allow_degenerate: bool, max_loc_over_scale: f64) -> Gen {
    let fams = [Family::Iid, Family::Ar1, Family::Trend, Family::Bimodal, Family::Disagree, Family::Constant, Family::NearConstant];
    let mut families = vec![];
    let mut phis = vec![];
    let mut loc = vec![];
    let mut scale = vec![];
    for _ in 0..p {
        let f = loop {
            let f = *g.choose(&fams);
            if allow_degenerate || !matches!(f, Family::Constant | Family::NearConstant) {
                break f;
            }
        };
        families.push(f);
        phis.push(if g.chance(0.5) { g.uniform(-0.9, 0.99) } else { g.uniform(-0.5, 0.9) });
        // mostly moderate scales, sometimes very small or very large absolute ones
        let s = match g.below(8) {
            0 => g.log_uniform(1e-8, 1e-3),
            1 => g.log_uniform(1e3, 1e6),
            _ => g.log_uniform(1e-3, 1e3),
        };
        scale.push(s);
        loc.push(if g.chance(0.3) { 0.0 } else { g.uniform(-1.0, 1.0) * max_loc_over_scale * s });
    }
    let mut data = vec![vec![vec![0f32; p]; n]; c];
    for j in 0..p {
        for ci in 0..c {
            let mut x = g.normal();
            let chain_shift = match families[j] {
                Family::Disagree => g.normal() * 3.0,
                _ => 0.0,
            };
            let mode = if g.bool() { 2.5 } else { -2.5 };
            for t in 0..n {
                let z = g.normal();
                let v = match families[j] {
                    Family::Iid => z,
                    Family::Ar1 => {
                        x = phis[j] * x + (1.0 - phis[j] * phis[j]).sqrt() * z;
                        x
                    }
                    Family::Trend => z + 4.0 * (t as f64 / n as f64),
                    Family::Bimodal => z * 0.5 + if g.chance(0.02) { -mode } else { mode },
                    Family::Disagree => z + chain_shift,
                    Family::Constant => 0.0,
                    Family::NearConstant => {
                        if g.chance(0.05) {
                            1e-6 * z
                        } else {
                            0.0
                        }
                    }
                };
                data[ci][t][j] = (loc[j] + scale[j] * v) as f32;
            }
        }
    }
    Gen { c, n, p, families, phis, loc, scale, data }
}

pub fn to_array(data: &[Vec<Vec<f32>>]) -> Array3<f32> {
    let (c, n, p) = (data.len(), data[0].len(), data[0][0].len());
    Array3::from_shape_fn((c, n, p), |(i, t, j)| data[i][t][j])
}
pub fn column(data: &[Vec<Vec<f32>>], j: usize) -> Vec<Vec<f64>> {
    data.iter().map(|ch| ch.iter().map(|row| row[j] as f64).collect()).collect()
}
/// the same column with every value moved by a random relative perturbation of one f32 ulp
pub fn perturbed(col: &[Vec<f64>], g: &mut Sm64) -> Vec<Vec<f64>> {
    col.iter()
        .map(|ch| ch.iter().map(|x| x * (1.0 + (g.f64() - 0.5) * 2.0 * f32::EPSILON as f64)).collect())
        .collect()
}

fn rhat_case(ctx: &Ctx, rep: &mut Report, case: u64, g: &mut Sm64) {
    let mon = "rhat";
    let sig = "split_rhat_mean_ess rhat";
    let c = if g.chance(0.15) { 1 } else { g.range(1, 16) };
    let n = pick_n(g, 4, if ctx.thorough { 5000 } else { 2500 });
    let p = g.range(1, 8);
    let ratio = if g.chance(0.3) { 1e3 } else { 10.0 };
    let gen = generate(g, c, n, p, true, ratio);
    let arr = to_array(&gen.data);
    rep.eval();
    let (rhat, _ess) = match guard(|| split_rhat_mean_ess(arr.view())) {
        Ok(r) => r,
        Err(m) => {
            rep.violation(&format!("{sig} panic"), mon, case, json!({"c": c, "n": n, "p": p, "panic": m}));
            return;
        }
    };
    if rhat.len() != p {
        rep.violation(&format!("{sig} wrong-number-of-parameters"), mon, case, json!({"c": c, "n": n, "p": p, "len": rhat.len()}));
        return;
    }
    rep.distinct(("rhat", c, n, p, gen.families.clone()));
    let nh = (n / 2) as f64;
    for j in 0..p {
        let col = column(&gen.data, j);
        let r0 = refstats::split_rhat(&col, 0);
        let r1 = refstats::split_rhat(&col, 1);
        let rp = refstats::split_rhat(&perturbed(&col, g), 0);
        let got = rhat[j] as f64;
        rep.count(&format!("family[{:?}]", gen.families[j]));
        if n % 2 == 1 {
            rep.count("odd_length");
        }
        if !(r0.w > 0.0) || !r0.rhat.is_finite() {
            // undefined diagnostic (constant parameter): anything goes, but no failure
            rep.count("undefined_rhat_inputs");
            rep.held();
            continue;
        }
        // beyond f32 conditioning: the within-chain spread is at the resolution of f32 around the
        // location (near-constant columns); no f32 implementation can resolve W there, so only
        // "does not fail" is demanded (the statement's NaN clause covers the exactly-constant case)
        let mean_abs = col.iter().flatten().map(|x| x.abs()).sum::<f64>() / (c * n) as f64;
        if r0.w.sqrt() < 2e-5 * mean_abs {
            rep.count("beyond_f32_conditioning_inputs");
            rep.inconclusive("within-chain spread below f32 resolution of the location: value not compared");
            continue;
        }
        let sens = (rp.rhat - r0.rhat).abs();
        let tol = 2e-3 * r0.rhat.abs() + 50.0 * sens + 1e-6;
        let ok = (got - r0.rhat).abs() <= tol || (got - r1.rhat).abs() <= tol;
        rep.max("rhat_error_over_tol", ((got - r0.rhat).abs().min((got - r1.rhat).abs())) / tol);
        let detail = || {
            json!({"c": c, "n": n, "p": p, "param": j, "family": format!("{:?}", gen.families[j]), "reported": fj(got),
            "reference_sqrt(var+/W)": {"W_ddof0": r0.rhat, "W_ddof1": r1.rhat}, "W": r0.w, "B/n": r0.b_over_n, "var+": r0.var_plus, "tol": tol,
            "loc": gen.loc[j], "scale": gen.scale[j]})
        };
        if !ok {
            let kind = if (got - 1.0 / r0.rhat).abs() <= tol.max(1e-3) { "inverted (sqrt(W/var+))" } else { "value" };
            rep.violation(&format!("{sig} differs-from-sqrt(var+/W): {kind}"), mon, case, detail());
            return;
        }
        // never below sqrt((n-1)/n)
        if got < ((nh - 1.0) / nh).sqrt() - tol {
            rep.violation(&format!("{sig} below-sqrt((n-1)/n)"), mon, case, detail());
            return;
        }
        rep.held();
    }
    rep.sample(json!({"c": c, "n": n, "p": p, "families": gen.families.iter().map(|f| format!("{f:?}")).collect::<Vec<_>>(),
        "rhat": rhat.iter().map(|x| fj(*x as f64)).collect::<Vec<_>>()}));
}

fn metamorphic_case(ctx: &Ctx, rep: &mut Report, case: u64, g: &mut Sm64) {
    let mon = "metamorphic";
    let sig = "split_rhat_mean_ess rhat";
    let c = g.range(2, 12);
    let n = pick_n(g, 8, 1200);
    let p = g.range(1, 5);
    let mut gen = generate(g, c, n, p, false, 5.0);
    // unit scale keeps the exact-power-of-two scaling and the shifts inside f32's comfortable range
    for j in 0..p {
        for ci in 0..c {
            for t in 0..n {
                gen.data[ci][t][j] = ((gen.data[ci][t][j] as f64 - gen.loc[j]) / gen.scale[j]) as f32;
            }
        }
    }
    let base = to_array(&gen.data);
    let run = |a: &Array3<f32>| guard(|| split_rhat_mean_ess(a.view()).0);
    rep.eval();
    let r0 = match run(&base) {
        Ok(r) => r,
        Err(m) => {
            rep.violation(&format!("{sig} panic"), mon, case, json!({"panic": m}));
            return;
        }
    };
    rep.distinct(("meta", c, n, p, gen.families.clone()));
    let cj = json!({"c": c, "n": n, "p": p, "families": gen.families.iter().map(|f| format!("{f:?}")).collect::<Vec<_>>()});
    let check = |name: &str, a: Array3<f32>, rel: f64, rep: &mut Report| -> bool {
        rep.eval();
        match run(&a) {
            Err(m) => {
                rep.violation(&format!("{sig} panic"), mon, case, json!({"cfg": cj, "transform": name, "panic": m}));
                false
            }
            Ok(r) => {
                for j in 0..p {
                    if !close(r[j] as f64, r0[j] as f64, rel, 1e-6) {
                        rep.violation(&format!("{sig} not-invariant-under {name}"), mon, case,
                            json!({"cfg": cj, "param": j, "before": fj(r0[j] as f64), "after": fj(r[j] as f64)}));
                        return false;
                    }
                }
                rep.held();
                true
            }
        }
    };
    // exact power-of-two rescaling, sign flip
    let k = g.range(0, 12) as i32 - 6;
    let a = (2.0f32).powi(k) * if g.bool() { -1.0 } else { 1.0 };
    if !check("x -> +-2^k x", base.mapv(|x| a * x), 1e-5, rep) {
        return;
    }
    // general affine map
    let (a2, b2) = (g.log_uniform(0.1, 10.0) as f32, g.uniform(-20.0, 20.0) as f32);
    if !check("x -> a x + b", base.mapv(|x| a2 * x + b2), 5e-3, rep) {
        return;
    }
    // chain permutation
    let mut perm: Vec<usize> = (0..c).collect();
    g.shuffle(&mut perm);
    let permuted = Array3::from_shape_fn((c, n, p), |(i, t, j)| base[[perm[i], t, j]]);
    if !check("chain permutation", permuted, 1e-4, rep) {
        return;
    }
    // the same logical array in other memory layouts (the functions take views)
    {
        use ndarray::ShapeBuilder;
        let mut f = Array3::<f32>::zeros((c, n, p).f());
        f.assign(&base);
        if !check("column-major storage", f, 1e-4, rep) {
            return;
        }
        let buf = Array3::from_shape_fn((n, c, p), |(t, i, j)| base[[i, t, j]]).permuted_axes([1, 0, 2]);
        if !check("axis-permuted view of a draws-major buffer", buf, 1e-4, rep) {
            return;
        }
        let wide = Array3::from_shape_fn((c, n, 2 * p), |(i, t, j)| if j % 2 == 0 { base[[i, t, j / 2]] } else { -7.5 });
        let strided = wide.slice_move(ndarray::s![.., .., 0..;2]);
        if !check("strided view (every second column of a wider array)", strided, 1e-4, rep) {
            return;
        }
    }
    // other parameters' values do not matter
    if p >= 2 {
        let keep = g.below(p);
        let other = Array3::from_shape_fn((c, n, p), |(i, t, j)| if j == keep { base[[i, t, j]] } else { (g.normal() * 7.0) as f32 });
        rep.eval();
        match run(&other) {
            Ok(r) => {
                if !close(r[keep] as f64, r0[keep] as f64, 1e-6, 0.0) {
                    rep.violation(&format!("{sig} depends-on-other-parameters"), mon, case,
                        json!({"cfg": cj, "param": keep, "before": fj(r0[keep] as f64), "after": fj(r[keep] as f64)}));
                    return;
                }
                rep.held();
            }
            Err(m) => {
                rep.violation(&format!("{sig} panic"), mon, case, json!({"cfg": cj, "panic": m}));
                return;
            }
        }
    }
    // moving one chain away: strictly increasing, unbounded (needs >= 2 chains so the shift is not global)
    let mut prev: Vec<f64> = r0.iter().map(|x| *x as f64).collect();
    // (only for parameters whose chains agree to begin with: moving a chain of a bimodal or
    // disagreeing family may legitimately bring it closer to the others)
    let agreeing: Vec<bool> = gen.families.iter().map(|f| matches!(f, Family::Iid | Family::Ar1 | Family::Trend)).collect();
    for delta in [10.0f32, 1e3, 1e5] {
        let moved = Array3::from_shape_fn((c, n, p), |(i, t, j)| if i == 0 { base[[i, t, j]] + delta * 3.0 } else { base[[i, t, j]] });
        rep.eval();
        match run(&moved) {
            Ok(r) => {
                for j in 0..p {
                    if !agreeing[j] {
                        continue;
                    }
                    let v = r[j] as f64;
                    let m = 2.0 * c as f64;
                    let lower = 0.5 * (2.0 * (m - 2.0) / (m * (m - 1.0))).sqrt() * (delta as f64 * 3.0) / 4.0;
                    if !(v > prev[j]) || (delta >= 10.0 && !(v > lower)) {
                        rep.violation(&format!("{sig} does-not-grow-when-a-chain-is-moved-away"), mon, case,
                            json!({"cfg": cj, "param": j, "shift_in_sd": delta * 3.0, "previous": fj(prev[j]), "now": fj(v), "lower_bound": lower}));
                        return;
                    }
                    prev[j] = v;
                }
                rep.held();
            }
            Err(m) => {
                rep.violation(&format!("{sig} panic"), mon, case, json!({"cfg": cj, "panic": m}));
                return;
            }
        }
    }
    rep.count("metamorphic_groups");
}

fn summary_case(ctx: &Ctx, rep: &mut Report, case: u64, g: &mut Sm64) {
    let mon = "summary";
    let len = if g.chance(0.3) { g.range(21, 64) } else { g.range(1, 64) };
    let with_nan = g.chance(0.4);
    let mut xs: Vec<f32> = (0..len).map(|_| (g.normal() * g.log_uniform(0.1, 1000.0)) as f32).collect();
    if g.chance(0.2) {
        // ties
        for i in 0..len {
            xs[i] = (xs[i] / 50.0).round() * 50.0;
        }
    }
    let mut n_nan = 0;
    if with_nan {
        let k = g.range(1, len.max(2) - 1).min(len);
        for _ in 0..k {
            let i = g.below(len);
            xs[i] = match g.below(4) {
                0 => f32::INFINITY,
                1 => f32::NEG_INFINITY,
                _ => f32::NAN,
            };
        }
        n_nan = xs.iter().filter(|x| x.is_nan()).count();
    }
    rep.eval();
    let r = guard(|| basic_stats("x", Array1::from(xs.clone())));
    rep.distinct(("summary", len, n_nan, hash_u64s(&xs.iter().map(|x| x.to_bits() as u64).collect::<Vec<_>>())));
    let bs = match r {
        Ok(b) => b,
        Err(m) => {
            rep.violation(&format!("basic_stats panic nan_present={}", n_nan > 0), mon, case, json!({"len": len, "n_nan": n_nan, "panic": m,
                "values": xs.iter().map(|x| fj(*x as f64)).collect::<Vec<_>>()}));
            return;
        }
    };
    if xs.iter().all(|x| x.is_finite()) {
        rep.count("summary_all_finite");
        let mut s: Vec<f64> = xs.iter().map(|x| *x as f64).collect();
        s.sort_by(|a, b| a.partial_cmp(b).unwrap());
        let (mean, var) = refstats::mean_uvar(&s);
        let lo_mid = s[(len - 1) / 2];
        let hi_mid = s[len / 2];
        let scale = s.iter().map(|x| x.abs()).fold(0.0, f64::max).max(1e-30);
        let ok_min = bs.min as f64 == s[0];
        let ok_max = bs.max as f64 == s[len - 1];
        let ok_med = bs.median as f64 == lo_mid || bs.median as f64 == hi_mid;
        let ok_mean = (bs.mean as f64 - mean).abs() <= 1e-4 * scale;
        let ok_sd = len < 2 || (bs.std as f64 - var.sqrt()).abs() <= 2e-3 * var.sqrt() + 1e-4 * scale;
        if !(ok_min && ok_max && ok_med && ok_mean && ok_sd) {
            let which = if !ok_min { "min" } else if !ok_max { "max" } else if !ok_med { "median" } else if !ok_mean { "mean" } else { "std" };
            rep.violation(&format!("basic_stats wrong-{which}"), mon, case, json!({"len": len, "reported": {"min": bs.min, "max": bs.max, "median": bs.median, "mean": bs.mean, "std": fj(bs.std as f64)},
                "reference": {"min": s[0], "max": s[len-1], "middle": [lo_mid, hi_mid], "mean": mean, "sd": fj(var.sqrt())}}));
            return;
        }
        rep.held();
    } else {
        rep.count("summary_with_nan_or_inf_returned");
        rep.held();
    }
}

fn runstats_case(ctx: &Ctx, rep: &mut Report, case: u64, g: &mut Sm64) {
    // RunStats::from on arrays with many parameters (some constant => NaN diagnostics among > 20 values)
    let mon = "runstats";
    let c = g.range(1, 4);
    let n = g.range(4, 60);
    let p = g.range(1, 48);
    let mut gen = generate(g, c, n, p.min(8), true, 3.0);
    // widen to p parameters by repeating columns with noise / constants
    let mut data = vec![vec![vec![0f32; p]; n]; c];
    let mut consts = 0;
    for j in 0..p {
        let constant = g.chance(0.3);
        if constant {
            consts += 1;
        }
        for ci in 0..c {
            for t in 0..n {
                data[ci][t][j] = if constant { 1.5 } else { gen.data[ci][t][j % gen.p] + (g.normal() * 0.1) as f32 };
            }
        }
    }
    gen.data = data;
    let arr = to_array(&gen.data);
    rep.eval();
    rep.distinct(("runstats", c, n, p, consts));
    let as_f64 = case % 3 == 1;
    match guard(|| {
        // RunStats::from is generic over the element type: also feed it the same numbers as f64
        // ... and as views that are not in standard (row-major) layout: column-major storage, or a
        // draws-major buffer seen through permuted axes
        let rs = if as_f64 {
            RunStats::from(arr.mapv(|x| x as f64).view())
        } else if case % 3 == 2 {
            use ndarray::ShapeBuilder;
            let mut f = ndarray::Array3::<f32>::zeros((c, n, p).f());
            f.assign(&arr);
            RunStats::from(f.view())
        } else if case % 6 == 0 {
            let buf = ndarray::Array3::from_shape_fn((n, c, p), |(t, i, j)| arr[[i, t, j]]);
            RunStats::from(buf.view().permuted_axes([1, 0, 2]))
        } else {
            RunStats::from(arr.view())
        };
        let (rh, es) = split_rhat_mean_ess(arr.view());
        (rs, rh, es)
    }) {
        Err(m) => {
            rep.violation("RunStats::from panic", mon, case, json!({"c": c, "n": n, "p": p, "constant_params": consts, "panic": m}));
        }
        Ok((rs, rh, es)) => {
            rep.count(if consts > 0 { "runstats_with_undefined_params" } else { "runstats_all_defined" });
            for (name, vals, bs) in [("rhat", &rh, &rs.rhat), ("ess", &es, &rs.ess)] {
                if vals.iter().all(|x| x.is_finite()) {
                    let mut s: Vec<f64> = vals.iter().map(|x| *x as f64).collect();
                    s.sort_by(|a, b| a.partial_cmp(b).unwrap());
                    let l = s.len();
                    let (mean, var) = refstats::mean_uvar(&s);
                    let scale = s.iter().map(|x| x.abs()).fold(0.0, f64::max).max(1e-30);
                    let ok = bs.min as f64 == s[0]
                        && bs.max as f64 == s[l - 1]
                        && (bs.median as f64 == s[(l - 1) / 2] || bs.median as f64 == s[l / 2])
                        && (bs.mean as f64 - mean).abs() <= 1e-4 * scale
                        && (l < 2 || (bs.std as f64 - var.sqrt()).abs() <= 2e-3 * var.sqrt() + 1e-4 * scale);
                    if !ok {
                        rep.violation(&format!("RunStats::from wrong-summary-of-{name}"), mon, case,
                            json!({"c": c, "n": n, "p": p, "reported": {"min": bs.min, "max": bs.max, "median": bs.median, "mean": bs.mean, "std": fj(bs.std as f64)},
                            "values": s}));
                        return;
                    }
                }
            }
            rep.held();
        }
    }
}

pub fn run(ctx: &Ctx, rep: &mut Report) {
    for c in ctx.case_ids("rhat", 2400, 240_000) {
        let mut g = ctx.rng("rhat", c);
        rhat_case(ctx, rep, c, &mut g);
    }
    for c in ctx.case_ids("metamorphic", 400, 40_000) {
        let mut g = ctx.rng("metamorphic", c);
        metamorphic_case(ctx, rep, c, &mut g);
    }
    for c in ctx.case_ids("summary", 3000, 300_000) {
        let mut g = ctx.rng("summary", c);
        summary_case(ctx, rep, c, &mut g);
    }
    for c in ctx.case_ids("runstats", 600, 60_000) {
        let mut g = ctx.rng("runstats", c);
        runstats_case(ctx, rep, c, &mut g);
    }
}
