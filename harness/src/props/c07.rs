//! C07 — same seed => same bits, independent of threads, neighbours and progress mode.
//!
//! Oracle: equality of byte images of run()/run_progress() outputs across repeated construction,
//! rayon pool sizes, concurrently running other samplers (incl. ones drawing from burn's
//! process-global generator) and progress mode; different seeds => different images.

use crate::props::c09::DetCond;
use crate::targets::*;
use crate::util::*;
use burn::backend::{Autodiff, NdArray};
use burn::tensor::Tensor;
use mini_mcmc::core::{init_det, init_with_seed, ChainRunner};
use mini_mcmc::distributions::{IsotropicGaussian, Proposal};
use mini_mcmc::gibbs::GibbsSampler;
use mini_mcmc::hmc::HMC;
use mini_mcmc::metropolis_hastings::MetropolisHastings;
use mini_mcmc::nuts::NUTS;
use serde_json::json;
use std::sync::atomic::{AtomicBool, Ordering};
use std::sync::Arc;

type B64 = Autodiff<NdArray<f64>>;
type B32 = Autodiff<NdArray<f32>>;

#[derive(Clone, Copy, Debug, PartialEq, Eq, Hash)]
pub enum Kind {
    Mh,
    MhFreshProposal,
    Gibbs,
    Hmc,
    Hmc32,
    HmcWide,
    Nuts,
    MhSleepy,
    /// the library's own 2-D Gaussian targets (their parameters derive from `prop_seed`)
    MhGauss2D,
    HmcGauss2D,
    NutsGauss2D,
}

/// isotropic Gaussian target whose evaluation time depends on the chain's start (first coordinate
/// of the first state it sees): chains of one sampler run at different speeds, deterministically in value
#[derive(Clone, Debug)]
pub struct SleepyTarget {
    pub sleep_us: std::cell::Cell<Option<u64>>,
}
impl mini_mcmc::distributions::Target<f64, f64> for SleepyTarget {
    fn unnorm_logp(&self, position: &[f64]) -> f64 {
        let us = match self.sleep_us.get() {
            Some(u) => u,
            None => {
                let u = ((position[0].abs() * 7919.0) as u64 % 5) * 120;
                self.sleep_us.set(Some(u));
                u
            }
        };
        if us > 0 {
            std::thread::sleep(std::time::Duration::from_micros(us));
        }
        -0.5 * position.iter().map(|x| x * x).sum::<f64>() / 2.25
    }
}
unsafe impl Sync for SleepyTarget {}

#[derive(Clone, Debug)]
pub struct Cfg {
    pub kind: Kind,
    pub seed: u64,
    pub n_chains: usize,
    pub dim: usize,
    pub n_collect: usize,
    pub n_discard: usize,
    pub inits: Vec<Vec<f64>>,
    pub prop_seed: u64,
}

fn t3<B: burn::tensor::backend::Backend>(t: Tensor<B, 3>) -> Vec<u64> {
    let mut v: Vec<u64> = t.dims().iter().map(|d| *d as u64).collect();
    v.extend(t.to_data().iter::<f64>().map(|x| x.to_bits()));
    v
}

/// mean and SPD covariance of the library 2-D Gaussians, a pure function of `prop_seed`
fn gauss2d_params(prop_seed: u64) -> ([f64; 2], [[f64; 2]; 2]) {
    let mut h = Sm64::new(prop_seed ^ 0x6a75_7373);
    // variances from 1e-5 upward: narrow targets make the NUTS step-size search go downward
    let (a, d) = (h.log_uniform(1e-5, 3.0), h.log_uniform(1e-5, 3.0));
    let b = h.uniform(-0.8, 0.8) * (a * d).sqrt();
    ([h.uniform(-1.0, 1.0), h.uniform(-1.0, 1.0)], [[a, b], [b, d]])
}

/// Builds the sampler from `cfg` and returns the byte image of run() (or run_progress()).
pub fn run_once(cfg: &Cfg, progress: bool) -> Result<Vec<u64>, String> {
    let cfg = cfg.clone();
    guard(move || match cfg.kind {
        Kind::Mh | Kind::MhFreshProposal => {
            let proposal = if cfg.kind == Kind::Mh {
                IsotropicGaussian::<f64>::new(0.9).set_seed(cfg.prop_seed)
            } else {
                // a freshly constructed proposal that the user may have tried out before handing it over
                let mut p = IsotropicGaussian::<f64>::new(0.9);
                if cfg.prop_seed % 2 == 0 {
                    let _ = p.sample(&[0.0, 0.0, 0.0]);
                }
                p
            };
            let mut s = MetropolisHastings::new(IsotropicGaussian::<f64>::new(1.5), proposal, cfg.inits.clone()).seed(cfg.seed);
            let a = if progress {
                s.run_progress(cfg.n_collect, cfg.n_discard).unwrap().0
            } else {
                s.run(cfg.n_collect, cfg.n_discard).unwrap()
            };
            let mut v: Vec<u64> = a.shape().iter().map(|d| *d as u64).collect();
            v.extend(a.iter().map(|x| x.to_bits()));
            v
        }
        Kind::MhSleepy => {
            let proposal = IsotropicGaussian::<f64>::new(0.9).set_seed(cfg.prop_seed);
            let mut s = MetropolisHastings::new(SleepyTarget { sleep_us: std::cell::Cell::new(None) }, proposal, cfg.inits.clone()).seed(cfg.seed);
            let a = if progress {
                s.run_progress(cfg.n_collect, cfg.n_discard).unwrap().0
            } else {
                s.run(cfg.n_collect, cfg.n_discard).unwrap()
            };
            let mut v: Vec<u64> = a.shape().iter().map(|d| *d as u64).collect();
            v.extend(a.iter().map(|x| x.to_bits()));
            v
        }
        Kind::Gibbs => {
            let mut s = GibbsSampler::new(DetCond, cfg.inits.clone()).set_seed(cfg.seed);
            let a = if progress {
                s.run_progress(cfg.n_collect, cfg.n_discard).unwrap().0
            } else {
                s.run(cfg.n_collect, cfg.n_discard).unwrap()
            };
            let mut v: Vec<u64> = a.shape().iter().map(|d| *d as u64).collect();
            v.extend(a.iter().map(|x| x.to_bits()));
            v
        }
        Kind::Hmc => {
            let target = DiagGauss::new((0..cfg.dim).map(|i| 0.6 + 0.3 * i as f64).collect(), vec![0.0; cfg.dim]);
            let mut s = HMC::<f64, B64, DiagGauss>::new(target, cfg.inits.clone(), 0.2, 4).set_seed(cfg.seed);
            if progress {
                t3(s.run_progress(cfg.n_collect, cfg.n_discard).unwrap().0)
            } else {
                t3(s.run(cfg.n_collect, cfg.n_discard))
            }
        }
        Kind::Hmc32 => {
            let target = Quartic { d: cfg.dim };
            let inits: Vec<Vec<f32>> = cfg.inits.iter().map(|r| r.iter().map(|x| *x as f32).collect()).collect();
            let mut s = HMC::<f32, B32, Quartic>::new(target, inits, 0.15, 3).set_seed(cfg.seed);
            if progress {
                t3(s.run_progress(cfg.n_collect, cfg.n_discard).unwrap().0)
            } else {
                t3(s.run(cfg.n_collect, cfg.n_discard))
            }
        }
        Kind::HmcWide => {
            // >= 64 tensor elements: burn-ndarray's vectorised / chunked code paths, library target
            let n = cfg.n_chains.max(2) * 4;
            let d = 8usize;
            let inits: Vec<Vec<f32>> = (0..n).map(|i| (0..d).map(|j| cfg.inits[i % cfg.n_chains][j % cfg.dim] as f32 * 0.3 + 0.01 * (i + j) as f32).collect()).collect();
            let mut s = HMC::<f32, B32, crate::props::c02::RosenNdLib>::new(crate::props::c02::RosenNdLib, inits, 0.01, 5).set_seed(cfg.seed);
            if progress {
                t3(s.run_progress(cfg.n_collect, cfg.n_discard).unwrap().0)
            } else {
                t3(s.run(cfg.n_collect, cfg.n_discard))
            }
        }
        Kind::MhGauss2D => {
            let (mean, cov) = gauss2d_params(cfg.prop_seed);
            let target = mini_mcmc::distributions::Gaussian2D::<f64> { mean: ndarray::arr1(&mean), cov: ndarray::arr2(&cov) };
            let proposal = IsotropicGaussian::<f64>::new(0.9).set_seed(cfg.prop_seed);
            let inits: Vec<Vec<f64>> = cfg.inits.iter().map(|r| vec![r[0], r[r.len() - 1]]).collect();
            let mut s = MetropolisHastings::new(target, proposal, inits).seed(cfg.seed);
            let a = if progress {
                s.run_progress(cfg.n_collect, cfg.n_discard).unwrap().0
            } else {
                s.run(cfg.n_collect, cfg.n_discard).unwrap()
            };
            let mut v: Vec<u64> = a.shape().iter().map(|d| *d as u64).collect();
            v.extend(a.iter().map(|x| x.to_bits()));
            v
        }
        Kind::HmcGauss2D => {
            let (mean, cov) = gauss2d_params(cfg.prop_seed);
            let target = mini_mcmc::distributions::DiffableGaussian2D::<f64>::new(mean, cov);
            let inits: Vec<Vec<f64>> = cfg.inits.iter().map(|r| vec![r[0], r[r.len() - 1]]).collect();
            let mut s = HMC::<f64, B64, _>::new(target, inits, 0.2, 4).set_seed(cfg.seed);
            if progress {
                t3(s.run_progress(cfg.n_collect, cfg.n_discard).unwrap().0)
            } else {
                t3(s.run(cfg.n_collect, cfg.n_discard))
            }
        }
        Kind::NutsGauss2D => {
            let (mean, cov) = gauss2d_params(cfg.prop_seed);
            let target = mini_mcmc::distributions::DiffableGaussian2D::<f64>::new(mean, cov);
            let inits: Vec<Vec<f64>> = cfg.inits.iter().map(|r| vec![r[0], r[r.len() - 1]]).collect();
            let mut s = NUTS::<f64, B64, _>::new(target, inits, 0.8).set_seed(cfg.seed);
            if progress {
                t3(s.run_progress(cfg.n_collect, cfg.n_discard).unwrap().0)
            } else {
                t3(s.run(cfg.n_collect, cfg.n_discard))
            }
        }
        Kind::Nuts => {
            let target = DiagGauss::new((0..cfg.dim).map(|i| 0.8 + 0.5 * i as f64).collect(), vec![0.0; cfg.dim]);
            let mut s = NUTS::<f64, B64, DiagGauss>::new(target, cfg.inits.clone(), 0.8).set_seed(cfg.seed);
            if progress {
                // run_progress is run shifted by one draw
                let full = t3(s.run_progress(cfg.n_collect, cfg.n_discard).unwrap().0);
                full
            } else {
                t3(s.run(cfg.n_collect, cfg.n_discard))
            }
        }
    })
}

/// For NUTS: image of run(n_collect+1, n_discard) with the first draw of every chain removed.
fn nuts_shifted(cfg: &Cfg) -> Result<Vec<u64>, String> {
    let mut c2 = cfg.clone();
    c2.n_collect += 1;
    let full = run_once(&c2, false)?;
    let (nc, n, d) = (full[0] as usize, full[1] as usize, full[2] as usize);
    let mut v = vec![nc as u64, (n - 1) as u64, d as u64];
    for c in 0..nc {
        for k in 1..n {
            for j in 0..d {
                v.push(full[3 + (c * n + k) * d + j]);
            }
        }
    }
    Ok(v)
}

fn special_seed(g: &mut Sm64, n_chains: usize) -> (u64, &'static str) {
    match g.below(10) {
        0 => (0, "0"),
        1 => (1, "1"),
        2 => (1u64 << 32, "2^32"),
        3 => (u64::MAX, "u64::MAX"),
        4 => (u64::MAX - g.below(n_chains + 2) as u64, "u64::MAX-k (per-chain offsets wrap)"),
        5 => (((1u64 << [62u32, 63][g.below(2)]).wrapping_mul(1 + g.below(2) as u64)).wrapping_sub(1 + g.below(n_chains + 1) as u64), "m*2^62-1-k (per-chain seeds hit multiples of 2^62)"),
        _ => (g.next_u64(), "random"),
    }
}

fn background(kind: usize, stop: Arc<AtomicBool>, seed: u64) {
    // another sampler running concurrently; HMC variants draw from burn's global generator
    let mut i = 0u64;
    while !stop.load(Ordering::Relaxed) {
        let cfg = Cfg {
            kind: [Kind::Hmc, Kind::Mh, Kind::Nuts, Kind::Hmc32][kind % 4],
            seed: seed.wrapping_add(i),
            n_chains: 2,
            dim: 2,
            n_collect: 6,
            n_discard: 2,
            inits: vec![vec![0.1, -0.2], vec![0.3, 0.4]],
            prop_seed: 5,
        };
        let _ = run_once(&cfg, false);
        // also hammer burn's process-global generator directly
        let _ = Tensor::<NdArray<f32>, 1>::random([8], burn::tensor::Distribution::Default, &Default::default());
        i += 1;
    }
}

fn case(ctx: &Ctx, rep: &mut Report, case: u64, g: &mut Sm64, kind: Kind) {
    let mon = "bytes";
    let n_chains = g.range(1, 6);
    let dim = g.range(1, 4);
    let (seed, seed_class) = special_seed(g, n_chains);
    let heavy = matches!(kind, Kind::Nuts | Kind::Hmc | Kind::Hmc32 | Kind::HmcWide | Kind::HmcGauss2D | Kind::NutsGauss2D);
    let cfg = Cfg {
        kind,
        seed,
        n_chains,
        dim,
        n_collect: g.range(4, if heavy { 10 } else { 40 }),
        n_discard: g.range(0, if heavy { 5 } else { 20 }),
        inits: (0..n_chains).map(|_| (0..dim).map(|_| g.normal()).collect()).collect(),
        prop_seed: g.next_u64(),
    };
    let sig = format!("{kind:?}");
    let cj = json!({"kind": sig, "seed": seed, "seed_class": seed_class, "n_chains": n_chains, "dim": dim,
        "n_collect": cfg.n_collect, "n_discard": cfg.n_discard});
    rep.count(&format!("seed_class[{seed_class}]"));
    // (i) reference run
    rep.eval();
    let base = match run_once(&cfg, false) {
        Ok(b) => b,
        Err(m) => {
            let cls = if m.contains("overflow") { "overflow-panic" } else { "panic" };
            rep.violation(&format!("{sig} {cls} seed_class={seed_class}"), mon, case, json!({"cfg": cj, "panic": m}));
            return;
        }
    };
    let compare = |what: &str, other: Result<Vec<u64>, String>, rep: &mut Report| -> bool {
        rep.eval();
        match other {
            Ok(o) if o == base => {
                rep.held();
                true
            }
            Ok(o) => {
                let first = base.iter().zip(&o).position(|(a, b)| a != b);
                rep.violation(&format!("{sig} output-differs: {what}"), mon, case,
                    json!({"cfg": cj, "first_differing_word": first, "len_a": base.len(), "len_b": o.len()}));
                false
            }
            Err(m) => {
                rep.violation(&format!("{sig} panic: {what}"), mon, case, json!({"cfg": cj, "panic": m}));
                false
            }
        }
    };
    // (i) repeated construction
    if !compare("repeated construction with the same seed", run_once(&cfg, false), rep) {
        return;
    }
    // (i') process history: on one and the same worker thread a sampler of the same kind with
    // other parameters runs and is dropped, then the sampler is built again (its allocations
    // land where the other one's were)
    {
        let mut decoy = cfg.clone();
        decoy.prop_seed = cfg.prop_seed.wrapping_mul(0x9e37_79b9).wrapping_add(12345);
        decoy.seed = seed.wrapping_add(99);
        for r in decoy.inits.iter_mut() {
            for x in r.iter_mut() {
                *x = -*x * 0.7 + 0.1;
            }
        }
        let pool1 = rayon::ThreadPoolBuilder::new().num_threads(1).build().unwrap();
        let r = pool1.install(|| {
            let _ = run_once(&decoy, false);
            run_once(&cfg, false)
        });
        rep.count("rebuilt_after_another_sampler_ran_and_was_dropped_on_the_same_thread");
        if !compare("after a sampler of the same kind with other parameters ran and was dropped on the same thread", r, rep) {
            return;
        }
    }
    // (ii) thread-pool sizes
    let threads = *g.choose(&[1usize, 2, 3, 8, 16]);
    rep.count(&format!("pool_threads[{threads}]"));
    let pool = rayon::ThreadPoolBuilder::new().num_threads(threads).build().unwrap();
    if !compare("rayon pool size", pool.install(|| run_once(&cfg, false)), rep) {
        return;
    }
    // (iii) concurrent samplers
    let n_bg = g.range(1, 3);
    let stop = Arc::new(AtomicBool::new(false));
    let handles: Vec<_> = (0..n_bg)
        .map(|i| {
            let st = stop.clone();
            let k = g.below(4);
            let s = g.next_u64();
            std::thread::spawn(move || background(k + i, st, s))
        })
        .collect();
    std::thread::sleep(std::time::Duration::from_millis(g.below(5) as u64));
    let r = run_once(&cfg, false);
    stop.store(true, Ordering::Relaxed);
    for h in handles {
        let _ = h.join();
    }
    rep.count("concurrent_groups_run");
    if !compare("other samplers running concurrently", r, rep) {
        return;
    }
    // (iv) progress mode (costs >= one 250 ms poll): a fraction of the cases
    if case % 4 == 0 {
        let expect = if matches!(kind, Kind::Nuts | Kind::NutsGauss2D) { nuts_shifted(&cfg) } else { Ok(base.clone()) };
        rep.eval();
        // progress mode under two more schedule conditions: (a) another sampler of the same kind is
        // inside run_progress at the same time, (b) the call comes from inside a rayon pool with
        // fewer threads than chains
        let variant = (case / 4) % 3;
        let prog = match variant {
            0 => run_once(&cfg, true),
            1 => {
                let stop2 = Arc::new(AtomicBool::new(false));
                let (st, c2) = (stop2.clone(), cfg.clone());
                let started = Arc::new(AtomicBool::new(false));
                let started2 = started.clone();
                let h = std::thread::spawn(move || {
                    let mut c = c2;
                    c.seed = c.seed.wrapping_add(77);
                    c.n_collect = 40;
                    while !st.load(Ordering::Relaxed) {
                        started2.store(true, Ordering::Relaxed);
                        let _ = run_once(&c, true);
                    }
                });
                while !started.load(Ordering::Relaxed) {
                    std::thread::yield_now();
                }
                std::thread::sleep(std::time::Duration::from_millis(30));
                let r = run_once(&cfg, true);
                stop2.store(true, Ordering::Relaxed);
                let _ = h.join();
                rep.count("progress_mode_with_concurrent_run_progress");
                r
            }
            _ => {
                let pool = rayon::ThreadPoolBuilder::new().num_threads(1 + (case as usize / 12) % 2).build().unwrap();
                rep.count("progress_mode_inside_small_pool");
                pool.install(|| run_once(&cfg, true))
            }
        };
        match (expect, prog) {
            (Ok(e), Ok(p)) if e == p => {
                rep.held();
                rep.count("progress_mode_compared");
            }
            (Ok(_), Ok(_)) => {
                rep.violation(&format!("{sig} output-differs: run_progress vs run"), mon, case, json!({"cfg": cj}));
                return;
            }
            (_, Err(m)) | (Err(m), _) => {
                rep.violation(&format!("{sig} panic: run_progress"), mon, case, json!({"cfg": cj, "panic": m}));
                return;
            }
        }
    }
    // (vi) a different seed gives different output (Gibbs with a deterministic conditional has no randomness)
    // (only meaningful if some chain moved at all: a sampler whose every transition is rejected, e.g.
    // NUTS after a one-step warm-up that left a far too large step size, legitimately returns its
    // start state for every seed)
    let moved = {
        let (nc, n, d) = (base[0] as usize, base[1] as usize, base[2] as usize);
        // the start states as the sampler received them (the 2-D kinds take the first and last coordinate)
        let eff: Vec<Vec<f64>> = if matches!(kind, Kind::MhGauss2D | Kind::HmcGauss2D | Kind::NutsGauss2D) {
            cfg.inits.iter().map(|r| vec![r[0], r[r.len() - 1]]).collect()
        } else {
            cfg.inits.clone()
        };
        (0..nc).any(|c| (0..n).any(|k| (0..d).any(|j| base[3 + (c * n + k) * d + j] != (eff[c][j] as f64).to_bits()
            && base[3 + (c * n + k) * d + j] != ((eff[c][j] as f32) as f64).to_bits())))
    };
    let moved = moved || kind == Kind::HmcWide;
    if kind != Kind::Gibbs && !moved {
        rep.inconclusive("different-seeds check skipped: no chain moved in this run");
    }
    if kind != Kind::Gibbs && moved {
        // the neighbour seed and one structurally related seed (differing in the top bit, by a
        // multiple of 2^62 or 2^32, or doubled): a seed derivation that loses bits maps these together
        let related = [seed ^ (1u64 << 63), seed.wrapping_add(1u64 << 62), seed.wrapping_add(3u64 << 62), seed.wrapping_add(1u64 << 32), seed.rotate_left(1) | 1];
        let mut pick = related[g.below(related.len())];
        if pick == seed {
            pick = seed.wrapping_add(2);
        }
        for (other, cls) in [(seed.wrapping_add(1), "seed+1"), (pick, "related seed")] {
            let mut c2 = cfg.clone();
            c2.seed = other;
            rep.eval();
            match run_once(&c2, false) {
                Ok(o) if o != base => rep.held(),
                Ok(_) => {
                    rep.violation(&format!("{sig} same-output-for-different-seeds"), mon, case, json!({"cfg": cj, "other_seed": c2.seed, "relation": cls, "inits": cfg.inits,
                        "output": base.iter().skip(3).take(40).map(|b| f64::from_bits(*b)).collect::<Vec<f64>>()}));
                    return;
                }
                Err(m) => {
                    let c = if m.contains("overflow") { "overflow-panic" } else { "panic" };
                    rep.violation(&format!("{sig} {c} seed_class={cls}"), mon, case, json!({"cfg": cj, "panic": m}));
                    return;
                }
            }
        }
    }
    rep.distinct((format!("{kind:?}"), seed, n_chains, dim, cfg.n_collect, cfg.n_discard));
    rep.distinct(("hash", hash_u64s(&base)));
    rep.distinct_in("output byte images", hash_u64s(&base));
    rep.distinct_in("seeds", seed);
    rep.sample(json!({"cfg": cj, "output_hash": format!("{:016x}", hash_u64s(&base)), "threads": threads, "background_samplers": n_bg}));
}

/// Determinism must not depend on the *values* drawn: seeds are searched for which a chain's
/// seeded generator yields an acceptance uniform of exactly 0 (f32: one draw in 2^24), the sampler
/// is then built and run repeatedly. (Any entropy taken from outside the seeded generators on
/// such a draw shows as differing outputs.)
fn rare_draw_case(ctx: &Ctx, rep: &mut Report, case: u64, g: &mut Sm64) {
    use rand::rngs::SmallRng;
    use rand::{Rng, SeedableRng};
    let mon = "raredraw";
    let base = g.next_u64() >> 4;
    if case % 2 == 0 {
        // MH, f32: chain i of a sampler seeded with s draws its acceptance uniforms from SmallRng(s+1+i)
        let budget = if ctx.thorough { 1u64 << 28 } else { 1u64 << 27 };
        let mut found = None;
        for k in 0..budget {
            let s = base.wrapping_add(k);
            let mut r = SmallRng::seed_from_u64(s.wrapping_add(1));
            let u: f32 = r.random();
            if u == 0.0 {
                found = Some(s);
                break;
            }
        }
        let Some(seed) = found else {
            rep.inconclusive("no seed whose first acceptance uniform is exactly 0 found in the scan budget");
            return;
        };
        let build = || {
            MetropolisHastings::new(IsotropicGaussian::<f32>::new(1.0), IsotropicGaussian::<f32>::new(1.5).set_seed(seed ^ 0x55), vec![vec![0.0f32, 0.0], vec![0.1, -0.1]]).seed(seed)
        };
        let cj = json!({"sampler": "MetropolisHastings<f32>", "seed": seed, "n_chains": 2, "n_collect": 12});
        // precondition, observed on the sampler itself
        let first_u: f32 = build().chains[0].rng.clone().random();
        if first_u != 0.0 {
            rep.inconclusive("seed search assumed a per-chain seeding scheme the sampler does not use: no exact-zero draw produced");
            return;
        }
        rep.count("samplers_whose_first_acceptance_draw_is_exactly_0");
        let mut images = vec![];
        for _ in 0..12 {
            rep.eval();
            match guard(|| build().run(12, 0).unwrap()) {
                Ok(a) => images.push(a.iter().map(|x| x.to_bits()).collect::<Vec<u32>>()),
                Err(m) => {
                    rep.violation("MetropolisHastings<f32> panic on an exact-zero acceptance draw", mon, case, json!({"cfg": cj, "panic": m}));
                    return;
                }
            }
        }
        if let Some(k) = images.iter().position(|im| im != &images[0]) {
            rep.violation("MetropolisHastings<f32> output-differs: repeated construction with the same seed (acceptance draw exactly 0)", mon, case,
                json!({"cfg": cj, "first_differing_repetition": k}));
            return;
        }
        rep.held();
        rep.distinct(("raredraw-mh", seed));
    } else {
        // HMC, f32: n*d momenta, then n acceptance uniforms from the sampler's generator (the
        // assumption only steers the search; the hook shows which uniforms were really used)
        let (n_chains, d) = (32usize, 1usize);
        let budget = if ctx.thorough { 1u64 << 24 } else { 1u64 << 23 };
        let mut found = None;
        for k in 0..budget {
            let s = base.wrapping_add(k);
            let mut r = SmallRng::seed_from_u64(s);
            for _ in 0..n_chains * d {
                let _: f32 = r.sample(rand_distr::StandardNormal);
            }
            if (0..n_chains).any(|_| r.random::<f32>() == 0.0) {
                found = Some(s);
                break;
            }
        }
        let Some(seed) = found else {
            rep.inconclusive("no seed with an acceptance uniform of exactly 0 found in the scan budget");
            return;
        };
        let target = DiagGauss::new(vec![1.0], vec![0.0]);
        let inits: Vec<Vec<f32>> = (0..n_chains).map(|i| vec![0.1 * i as f32 - 1.5]).collect();
        let cj = json!({"sampler": "HMC<f32, NdArray<f32>>", "seed": seed, "n_chains": n_chains, "n_collect": 6, "step_size": 1.9, "L": 2});
        let build = || HMC::<f32, B32, DiagGauss>::new(target.clone(), inits.clone(), 1.9, 2).set_seed(seed);
        mini_mcmc::verif::enable();
        let _ = guard(|| build().step());
        let ev = mini_mcmc::verif::take();
        mini_mcmc::verif::disable();
        let zero_seen = ev.iter().any(|e| matches!(e, mini_mcmc::verif::Event::HmcStep { uniforms, .. } if uniforms.iter().any(|u| *u == 0.0)));
        if !zero_seen {
            rep.inconclusive("seed search assumed a draw order the sampler does not use: no exact-zero draw produced");
            return;
        }
        rep.count("samplers_whose_first_acceptance_draw_is_exactly_0");
        let mut images = vec![];
        for _ in 0..6 {
            rep.eval();
            match guard(|| t3(build().run(6, 0))) {
                Ok(a) => images.push(a),
                Err(m) => {
                    rep.violation("HMC<f32> panic on an exact-zero acceptance draw", mon, case, json!({"cfg": cj, "panic": m}));
                    return;
                }
            }
        }
        if let Some(k) = images.iter().position(|im| im != &images[0]) {
            rep.violation("HMC<f32> output-differs: repeated construction with the same seed (acceptance draw exactly 0)", mon, case,
                json!({"cfg": cj, "first_differing_repetition": k}));
            return;
        }
        rep.held();
        rep.distinct(("raredraw-hmc", seed));
    }
}

fn init_case(rep: &mut Report, case: u64, g: &mut Sm64) {
    let mon = "init";
    // mostly small requests; one in eight large (thousands of rows or hundreds of columns)
    let (n, d) = match g.below(8) {
        0 => (g.range(64, 256), g.range(64, 256)),
        1 => (g.range(2000, 9000), g.range(1, 4)),
        _ => (g.range(0, 40), g.range(0, 12)),
    };
    let seed = match g.below(4) {
        0 => u64::MAX,
        1 => 0,
        _ => g.next_u64(),
    };
    rep.eval();
    let threads = *g.choose(&[1usize, 2, 5, 16]);
    rep.count(&format!("init_pool_threads[{threads}]"));
    let pool = rayon::ThreadPoolBuilder::new().num_threads(threads).build().unwrap();
    let r = guard(|| {
        let a: Vec<Vec<f64>> = init_with_seed(n, d, seed);
        // the same call from inside a rayon pool of another size
        let b: Vec<Vec<f64>> = pool.install(|| init_with_seed(n, d, seed));
        let c: Vec<Vec<f64>> = init_det(n, d);
        let c2: Vec<Vec<f64>> = init_det(n, d);
        let c42: Vec<Vec<f64>> = init_with_seed(n, d, 42);
        let other: Vec<Vec<f64>> = init_with_seed(n, d, seed.wrapping_add(1));
        (a, b, c, c2, c42, other)
    });
    match r {
        Err(m) => rep.violation("init_with_seed panic", mon, case, json!({"n": n, "d": d, "seed": seed, "panic": m})),
        Ok((a, b, c, c2, c42, other)) => {
            let img = |v: &Vec<Vec<f64>>| v.iter().flatten().map(|x| x.to_bits()).collect::<Vec<u64>>();
            if img(&a) != img(&b) || img(&c) != img(&c2) {
                rep.violation("init_with_seed/init_det not pure", mon, case, json!({"n": n, "d": d, "seed": seed}));
            } else if img(&c) != img(&c42) {
                rep.violation("init_det differs from init_with_seed(42)", mon, case, json!({"n": n, "d": d}));
            } else if n * d >= 2 && img(&a) == img(&other) {
                rep.violation("init_with_seed same output for different seeds", mon, case, json!({"n": n, "d": d, "seed": seed}));
            } else {
                rep.held();
                rep.distinct(("init", n, d, seed));
            }
        }
    }
}

pub fn run(ctx: &Ctx, rep: &mut Report) {
    let kinds = [Kind::Mh, Kind::MhFreshProposal, Kind::Gibbs, Kind::Hmc, Kind::Hmc32, Kind::Nuts, Kind::HmcWide, Kind::MhSleepy, Kind::MhGauss2D, Kind::HmcGauss2D, Kind::NutsGauss2D];
    for c in ctx.case_ids("bytes", 96, 20_000) {
        let mut g = ctx.rng("bytes", c);
        let kind = kinds[(c as usize / 4 + c as usize) % kinds.len()];
        case(ctx, rep, c, &mut g, kind);
    }
    for c in ctx.case_ids("raredraw", 2, 32) {
        let mut g = ctx.rng("raredraw", c);
        rare_draw_case(ctx, rep, c, &mut g);
    }
    for c in ctx.case_ids("init", 200, 200_000) {
        let mut g = ctx.rng("init", c);
        init_case(rep, c, &mut g);
    }
}
