//! C18 — initial-position helpers: shape, finiteness, purity, prefix property, standard normal.

use crate::util::*;
use mini_mcmc::core::{init, init_det, init_with_seed};
use serde_json::json;

fn img64(v: &[Vec<f64>]) -> Vec<u64> {
    v.iter().flatten().map(|x| x.to_bits()).collect()
}

fn shape_case(ctx: &Ctx, rep: &mut Report, case: u64, g: &mut Sm64) {
    let mon = "shape";
    // quick: seeded subset incl. all borders; thorough: the driver's case ids sweep the full 256x256 grid
    let (n, d) = if ctx.thorough {
        ((case / 256) as usize % 256, (case % 256) as usize)
    } else {
        let b = [0usize, 1, 2, 255];
        match g.below(4) {
            0 => (*g.choose(&b), g.range(0, 255)),
            1 => (g.range(0, 255), *g.choose(&b)),
            2 => (*g.choose(&b), *g.choose(&b)),
            _ => (g.range(0, 255), g.range(0, 255)),
        }
    };
    let seed = match g.below(5) {
        0 => 0,
        1 => u64::MAX,
        2 => 42,
        _ => g.next_u64(),
    };
    // other request sizes with the same d and seed: small ones, a neighbour, and the largest in scope
    let other_ns: Vec<usize> = vec![1, 2, n / 2, g.range(0, 255), 255];
    rep.eval();
    let r = guard(|| {
        let a: Vec<Vec<f64>> = init_with_seed(n, d, seed);
        let a2: Vec<Vec<f64>> = init_with_seed(n, d, seed);
        let f: Vec<Vec<f32>> = init_with_seed(n, d, seed);
        // (an f32 request of at least the same size first: the f64 result must not depend on it)
        let det32: Vec<Vec<f32>> = init_det(n + 1, d);
        let det: Vec<Vec<f64>> = init_det(n, d);
        assert_eq!(det32.len(), n + 1);
        let s42: Vec<Vec<f64>> = init_with_seed(n, d, 42);
        let os: Vec<Vec<f64>> = init(n, d);
        let os2: Vec<Vec<f64>> = init(n, d);
        let bigger: Vec<Vec<f64>> = init_with_seed(n + 3, d, seed);
        let others: Vec<Vec<Vec<f64>>> = other_ns.iter().map(|m| init_with_seed(*m, d, seed)).collect();
        (a, a2, f, det, s42, os, os2, bigger, others)
    });
    let cj = json!({"n": n, "d": d, "seed": seed});
    let (a, a2, f, det, s42, os, os2, bigger, others) = match r {
        Ok(x) => x,
        Err(m) => {
            rep.violation("init panic", mon, case, json!({"cfg": cj, "panic": m}));
            return;
        }
    };
    rep.distinct(("shape", n, d, seed));
    for (name, v) in [("init_with_seed", &a), ("init_det", &det), ("init", &os)] {
        if v.len() != n || v.iter().any(|r| r.len() != d) {
            rep.violation(&format!("{name} wrong-shape"), mon, case, json!({"cfg": cj, "rows": v.len(), "row_lens": v.iter().map(|r| r.len()).take(4).collect::<Vec<_>>()}));
            return;
        }
        if v.iter().flatten().any(|x| !x.is_finite()) {
            rep.violation(&format!("{name} non-finite-entry"), mon, case, cj);
            return;
        }
    }
    if f.len() != n || f.iter().any(|r| r.len() != d) {
        rep.violation("init_with_seed<f32> wrong-shape", mon, case, cj);
        return;
    }
    if img64(&a) != img64(&a2) {
        rep.violation("init_with_seed not-pure", mon, case, cj);
        return;
    }
    // independence, exact part: no run of four consecutive entries (row-major) occurs twice in one
    // result (for independent f64 normals the chance is below 2^-150 per pair of positions)
    for (name, v) in [("init_with_seed", &a), ("init", &os)] {
        let flat: Vec<u64> = v.iter().flatten().map(|x| x.to_bits()).collect();
        if flat.len() >= 8 {
            let mut seen = std::collections::HashMap::with_capacity(flat.len());
            for (i, w) in flat.windows(4).enumerate() {
                if let Some(j) = seen.insert((w[0], w[1], w[2], w[3]), i) {
                    rep.violation(&format!("{name} entries-repeat: a run of draws occurs twice in one result"), mon, case,
                        json!({"cfg": cj, "first_at_flat_index": j, "again_at_flat_index": i, "row_length": d}));
                    return;
                }
            }
            rep.count("results_scanned_for_repeated_runs");
        }
    }
    if case % 16 == 0 {
        // pure also when called from several threads at once - with the same and with other
        // arguments (each thread repeats its call a few times so that the calls overlap)
        let base = img64(&a);
        let hs: Vec<_> = (0..6u64)
            .map(|k| {
                let (sd, nn) = if k < 2 { (seed, n) } else { (seed.wrapping_add(k), (n + k as usize * 7) % 256) };
                std::thread::spawn(move || {
                    let reference: Vec<u64> = Vec::new();
                    let mut imgs = vec![];
                    for _ in 0..4 {
                        let v: Vec<Vec<f64>> = init_with_seed(nn, d, sd);
                        imgs.push(img64(&v));
                    }
                    let _ = reference;
                    (sd, nn, imgs)
                })
            })
            .collect();
        let results: Vec<_> = hs.into_iter().map(|h| h.join()).collect();
        for r in results {
            let Ok((sd, nn, imgs)) = r else {
                rep.violation("init_with_seed panic (concurrent calls)", mon, case, cj);
                return;
            };
            // the single-threaded answer for that thread's arguments, computed now that all is quiet
            let quiet: Vec<Vec<f64>> = init_with_seed(nn, d, sd);
            let want = if sd == seed && nn == n { base.clone() } else { img64(&quiet) };
            if imgs.iter().any(|im| *im != want) {
                rep.violation("init_with_seed not-pure (concurrent calls)", mon, case, json!({"cfg": cj, "thread_args": {"n": nn, "d": d, "seed": sd}}));
                return;
            }
        }
        rep.count("concurrent_purity_checks");
    }
    if case % 8 == 1 {
        // ... and whatever thread pool the caller happens to be in
        for threads in [1usize, 3, 16] {
            let pool = rayon::ThreadPoolBuilder::new().num_threads(threads).build().unwrap();
            let v: Vec<Vec<f64>> = pool.install(|| init_with_seed(n, d, seed));
            if img64(&v) != img64(&a) {
                rep.violation("init_with_seed not-pure (depends on the rayon pool it is called from)", mon, case, json!({"cfg": cj, "pool_threads": threads}));
                return;
            }
        }
        rep.count("pool_size_purity_checks");
    }
    if img64(&det) != img64(&s42) {
        rep.violation("init_det differs-from-init_with_seed(42)", mon, case, cj);
        return;
    }
    for i in 0..n {
        for j in 0..d {
            if f[i][j].to_bits() != (a[i][j] as f32).to_bits() {
                rep.violation("init_with_seed<f32> is-not-the-rounded-f64-value", mon, case, json!({"cfg": cj, "i": i, "j": j}));
                return;
            }
            if bigger[i][j].to_bits() != a[i][j].to_bits() {
                rep.violation("init_with_seed prefix-property", mon, case, json!({"cfg": cj, "i": i, "j": j}));
                return;
            }
        }
    }
    for (m, o) in other_ns.iter().zip(&others) {
        if o.len() != *m {
            rep.violation("init_with_seed wrong-shape", mon, case, json!({"cfg": cj, "requested_rows": m, "rows": o.len()}));
            return;
        }
        for i in 0..n.min(*m) {
            if o[i].len() != d || (0..d).any(|j| o[i][j].to_bits() != a[i][j].to_bits()) {
                rep.violation("init_with_seed prefix-property", mon, case, json!({"cfg": cj, "other_request_rows": m, "row": i}));
                return;
            }
        }
    }
    if n * d >= 2 && img64(&os) == img64(&os2) {
        rep.violation("init two-calls-identical", mon, case, cj);
        return;
    }
    if n * d >= 2 && seed != 42 && img64(&a) == img64(&det) {
        rep.violation("init_with_seed ignores-seed", mon, case, cj);
        return;
    }
    rep.held();
    if case < 3 {
        rep.sample(json!({"cfg": cj, "first_row": a.first().map(|r| r.iter().take(4).cloned().collect::<Vec<f64>>())}));
    }
}

/// calibrated moment/KS/correlation tests on pooled entries
fn dist_case(ctx: &Ctx, rep: &mut Report, case: u64, g: &mut Sm64) {
    let mon = "dist";
    let os_seeded = case % 3 == 2;
    let (n, d) = (g.range(20, 200), g.range(2, 60));
    let reps = 200_000 / (n * d) + 1;
    let mut pool: Vec<f64> = vec![];
    let mut lag_in_row = 0.0f64;
    let mut lag_n = 0.0f64;
    let mut lag_between = 0.0f64;
    let mut lagb_n = 0.0f64;
    for _ in 0..reps {
        let v: Vec<Vec<f64>> = if os_seeded { init(n, d) } else { init_with_seed(n, d, g.next_u64()) };
        if v.len() != n || v.iter().any(|r| r.len() != d) {
            rep.violation("init wrong-shape", mon, case, json!({"n": n, "d": d}));
            return;
        }
        for i in 0..n {
            for j in 0..d {
                if j + 1 < d {
                    lag_in_row += v[i][j] * v[i][j + 1];
                    lag_n += 1.0;
                }
                if i + 1 < n {
                    lag_between += v[i][j] * v[i + 1][j];
                    lagb_n += 1.0;
                }
                pool.push(v[i][j]);
            }
        }
    }
    rep.evals(reps as u64);
    rep.distinct(("dist", os_seeded, n, d, case));
    let m = pool.len() as f64;
    let mean = pool.iter().sum::<f64>() / m;
    let var = pool.iter().map(|x| x * x).sum::<f64>() / m;
    let m4 = pool.iter().map(|x| x.powi(4)).sum::<f64>() / m;
    let z_mean = mean * m.sqrt();
    let z_var = (var - 1.0) / (2.0 / m).sqrt();
    let z_m4 = (m4 - 3.0) / (96.0 / m).sqrt();
    let z_row = lag_in_row / lag_n.sqrt();
    let z_btw = lag_between / lagb_n.sqrt();
    let ks = ks_stat(&mut pool, phi);
    let name = if os_seeded { "init" } else { "init_with_seed" };
    let stats = json!({"entries": m, "z_mean": z_mean, "z_var": z_var, "z_4th_moment": z_m4, "z_within_row_lag1": z_row, "z_between_row_lag1": z_btw, "ks_sqrt_n_D": ks});
    for (nm, z) in [("mean", z_mean), ("variance", z_var), ("4th-moment", z_m4), ("within-row-correlation", z_row), ("between-row-correlation", z_btw)] {
        rep.max("max_abs_z", z.abs());
        if z.abs() > 6.5 {
            rep.violation(&format!("{name} not-standard-normal: {nm}"), mon, case, stats);
            return;
        }
    }
    rep.max("max_ks", ks);
    if ks > 3.6 {
        // P(sqrt(n) D > 3.6) ~ 1e-11 (the thorough tier makes 16 000 such tests per run; at the
        // former 2.6, p ~ 2.7e-6, one run in twenty-five raised a false alarm)
        rep.violation(&format!("{name} not-standard-normal: KS"), mon, case, stats);
        return;
    }
    rep.held();
    if case < 2 {
        rep.sample(json!({"fn": name, "n": n, "d": d, "stats": stats}));
    }
}

/// `init` without a seed: separate calls are independent, so among several hundred thousand small
/// requests no two results coincide entry for entry (a generator seeded from fewer than ~50 bits
/// of entropy shows birthday collisions here: 2^32 seeds give ~19 among 400 000 calls).
fn birthday_case(rep: &mut Report, case: u64) {
    let mon = "dist";
    let calls = 400_000usize;
    let mut seen: std::collections::HashSet<(u64, u64)> = std::collections::HashSet::with_capacity(calls * 2);
    let mut dup = 0usize;
    for _ in 0..calls {
        let key = if case % 2 == 0 {
            let v: Vec<Vec<f64>> = init(1, 2);
            (v[0][0].to_bits(), v[0][1].to_bits())
        } else {
            let v: Vec<Vec<f32>> = init(2, 2);
            (((v[0][0].to_bits() as u64) << 32) | v[0][1].to_bits() as u64, ((v[1][0].to_bits() as u64) << 32) | v[1][1].to_bits() as u64)
        };
        if !seen.insert(key) {
            dup += 1;
        }
    }
    rep.evals(calls as u64);
    rep.count_n("unseeded_small_requests_compared_for_coincidence", calls as u64);
    if dup > 0 {
        rep.violation("init separate-calls-return-identical-results (birthday test)", mon, case, json!({"calls": calls, "coinciding_results": dup, "request": if case % 2 == 0 { "init::<f64>(1,2)" } else { "init::<f32>(2,2)" }}));
        return;
    }
    rep.held();
    rep.distinct(("birthday", case));
}

/// Far tails: among 65 million seeded draws about 37 lie beyond five standard deviations
/// (P(|z| > 5) = 5.73e-7); a generator that clips or redraws its tails shows none.
fn tails_case(rep: &mut Report, case: u64, g: &mut Sm64) {
    let mon = "dist";
    let calls = 1000usize;
    let (mut beyond5, mut beyond6, mut total) = (0u64, 0u64, 0u64);
    let f32_case = case % 2 == 1;
    for _ in 0..calls {
        let seed = g.next_u64();
        if f32_case {
            let v: Vec<Vec<f32>> = init_with_seed(255, 255, seed);
            for x in v.iter().flatten() {
                total += 1;
                if x.abs() > 5.0 { beyond5 += 1; }
                if x.abs() > 6.0 { beyond6 += 1; }
            }
        } else {
            let v: Vec<Vec<f64>> = init_with_seed(255, 255, seed);
            for x in v.iter().flatten() {
                total += 1;
                if x.abs() > 5.0 { beyond5 += 1; }
                if x.abs() > 6.0 { beyond6 += 1; }
            }
        }
    }
    rep.evals(calls as u64);
    let expect5 = total as f64 * 5.733e-7;
    rep.count_n("entries_examined_for_far_tails", total);
    rep.count_n("entries_beyond_5_sigma", beyond5);
    // Poisson(37): P(X < 10) ~ 1e-8, P(X > 80) ~ 1e-9; beyond 6 sigma: expectation 0.13, P(X > 8) ~ 1e-13
    if (beyond5 as f64) < expect5 * 0.27 || (beyond5 as f64) > expect5 * 2.15 || beyond6 > 8 {
        rep.violation("init_with_seed far-tails-are-not-those-of-a-standard-normal", mon, case,
            json!({"entries": total, "beyond_5_sigma": beyond5, "expected": expect5, "beyond_6_sigma": beyond6, "type": if f32_case { "f32" } else { "f64" }}));
        return;
    }
    rep.held();
    rep.distinct(("tails", case));
}

pub fn run(ctx: &Ctx, rep: &mut Report) {
    for c in ctx.case_ids("tails", 2, 32) {
        let mut g = ctx.rng("tails", c);
        tails_case(rep, c, &mut g);
    }
    for c in ctx.case_ids("birthday", 2, 16) {
        birthday_case(rep, c);
    }
    for c in ctx.case_ids("shape", 1200, 65_536) {
        let mut g = ctx.rng("shape", c);
        shape_case(ctx, rep, c, &mut g);
    }
    for c in ctx.case_ids("dist", 24, 16_000) {
        let mut g = ctx.rng("dist", c);
        dist_case(ctx, rep, c, &mut g);
    }
}
