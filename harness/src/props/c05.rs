//! C05 — one Gibbs step refreshes every coordinate exactly once, conditioning on the freshest state.
//!
//! History checker over the calls received by a recording `Conditional` whose every answer is a
//! globally unique value (so a stale or misplaced write is unambiguous).

use crate::util::*;
use mini_mcmc::core::{ChainRunner, MarkovChain};
use mini_mcmc::distributions::Conditional;
use mini_mcmc::gibbs::{GibbsMarkovChain, GibbsSampler};
use serde_json::json;

pub trait GElem: Bits + ndarray::LinalgScalar + PartialEq + Send + Sync + num_traits::ToPrimitive + std::fmt::Debug {
    const NAME: &'static str;
    fn unique(counter: u64, weird: bool) -> Self;
    /// a zero whose sign bit differs from `prev`'s if `prev` is itself a zero (equal under `==`,
    /// different bit for bit); None for types without signed zeros
    fn other_zero(_prev: Self) -> Option<Self> {
        None
    }
}
impl GElem for f64 {
    const NAME: &'static str = "f64";
    fn other_zero(prev: f64) -> Option<f64> {
        Some(if prev == 0.0 { -prev } else { 0.0 })
    }
    fn unique(c: u64, weird: bool) -> f64 {
        if weird {
            match c % 3 {
                0 => f64::from_bits(0x7ff8_0000_0000_0000 | c),
                1 => -(c as f64) - 0.25,
                _ => (c as f64) * 1e-310,
            }
        } else {
            c as f64 + 0.5
        }
    }
}
impl GElem for f32 {
    const NAME: &'static str = "f32";
    fn other_zero(prev: f32) -> Option<f32> {
        Some(if prev == 0.0 { -prev } else { -0.0 })
    }
    fn unique(c: u64, weird: bool) -> f32 {
        if weird && c % 2 == 0 {
            f32::from_bits(0x7fc0_0000 | (c as u32 & 0x3f_ffff))
        } else {
            c as f32 + 0.5
        }
    }
}
impl GElem for i32 {
    const NAME: &'static str = "i32";
    fn unique(c: u64, _weird: bool) -> i32 {
        1000 + c as i32
    }
}

#[derive(Clone, Debug)]
pub struct RecCond<S> {
    pub calls: Vec<(usize, Vec<u64>, u64)>, // (index, bits of given, bits of the answer)
    pub counter: u64,
    pub weird: bool,
    /// two answers in three are zeros, of the sign opposite to the coordinate's current value if that is a zero
    pub zeros: bool,
    /// panic (once) when the call counter reaches this value
    pub panic_at: Option<u64>,
    pub _p: std::marker::PhantomData<S>,
}
impl<S: GElem> Conditional<S> for RecCond<S> {
    fn sample(&mut self, index: usize, given: &[S]) -> S {
        self.counter += 1;
        if self.panic_at == Some(self.counter) {
            self.panic_at = None;
            panic!("conditional failed (injected)");
        }
        let mut v = S::unique(self.counter, self.weird);
        if self.zeros && (self.counter.wrapping_mul(0x9e37_79b9_7f4a_7c15) >> 40) % 3 != 0 {
            if let Some(z) = given.get(index).and_then(|p| S::other_zero(*p)) {
                v = z;
            }
        }
        self.calls.push((index, bits_vec(given), v.bits()));
        v
    }
}

/// Checks a call history against the sweep semantics. `states_after` (bit images) are the states
/// observed after each step, if the caller saw them.
fn check_history(
    rep: &mut Report,
    sig: &str,
    mon: &str,
    case: u64,
    d: usize,
    init: &[u64],
    calls: &[(usize, Vec<u64>, u64)],
    states_after: &[Vec<u64>],
    n_steps: usize,
) -> bool {
    if calls.len() != n_steps * d {
        rep.violation(
            &format!("{sig} number-of-conditional-calls"),
            mon,
            case,
            json!({"d": d, "steps": n_steps, "calls": calls.len(), "expected": n_steps * d}),
        );
        return false;
    }
    let mut shadow = init.to_vec();
    for s in 0..n_steps {
        let mut seen = vec![false; d];
        for c in 0..d {
            let (idx, given, ans) = &calls[s * d + c];
            if *idx >= d || seen[*idx] {
                rep.violation(
                    &format!("{sig} coordinate-not-refreshed-exactly-once"),
                    mon,
                    case,
                    json!({"d": d, "step": s, "call": c, "index": idx}),
                );
                return false;
            }
            seen[*idx] = true;
            if given != &shadow {
                let differing: Vec<usize> = (0..d.min(given.len())).filter(|i| given[*i] != shadow[*i]).collect();
                rep.violation(
                    &format!("{sig} conditioned-on-stale-or-altered-state"),
                    mon,
                    case,
                    json!({"d": d, "step": s, "call": c, "index": idx, "given_len": given.len(), "coords_differing_from_fresh_state": differing}),
                );
                return false;
            }
            shadow[*idx] = *ans;
            rep.held();
        }
        if let Some(obs) = states_after.get(s) {
            if obs != &shadow {
                rep.violation(
                    &format!("{sig} state-after-step-differs-from-answers"),
                    mon,
                    case,
                    json!({"d": d, "step": s}),
                );
                return false;
            }
            rep.held();
        }
    }
    true
}

fn case<S: GElem>(ctx: &Ctx, rep: &mut Report, case: u64, g: &mut Sm64) {
    let mon = "history";
    let d = match g.below(6) {
        0 => 1,
        1 => 2,
        2 => 64,
        _ => g.range(1, 64),
    };
    let weird = g.chance(0.3);
    let zeros = g.chance(0.25);
    let n_steps = g.range(1, if ctx.thorough { 60 } else { 25 });
    let init: Vec<S> = (0..d).map(|i| S::unique(1_000_000 + i as u64, false)).collect();
    let rc = RecCond::<S> {
        calls: vec![],
        counter: 0,
        weird,
        zeros,
        panic_at: None,
        _p: std::marker::PhantomData,
    };
    let sig = format!("GibbsMarkovChain::step S={}", S::NAME);
    rep.distinct(("gibbs", S::NAME, d, weird, zeros, n_steps));
    if zeros && S::other_zero(S::unique(1, false)).is_some() {
        rep.count("histories_with_signed_zero_answers");
    }
    rep.distinct_in("dimensions swept", d);
    if g.chance(0.5) {
        // direct stepping of one chain
        let mut chain = GibbsMarkovChain::new(rc, &init);
        let mut after = vec![];
        for _ in 0..n_steps {
            let r = guard(|| chain.step().clone());
            rep.eval();
            match r {
                Ok(s) => {
                    if !bits_eq(&s, &chain.current_state) {
                        rep.violation(&format!("{sig} returned-state-differs-from-current_state"), mon, case, json!({"d": d}));
                        return;
                    }
                    after.push(bits_vec(&s));
                }
                Err(m) => {
                    rep.violation(&format!("{sig} panic"), mon, case, json!({"d": d, "panic": m}));
                    return;
                }
            }
        }
        if check_history(rep, &sig, mon, case, d, &bits_vec(&init), &chain.target.calls, &after, n_steps) {
            rep.count("chains_checked_direct");
            // the public field current_state may be replaced, also by a state of another dimension
            let d2 = match g.below(3) {
                0 => d + g.range(1, 5),
                1 => (d / 2).max(1),
                _ => d,
            };
            let init2: Vec<S> = (0..d2).map(|i| S::unique(3_000_000 + i as u64, false)).collect();
            chain.current_state = init2.clone();
            chain.target.calls.clear();
            let mut after2 = vec![];
            let r = guard(|| {
                for _ in 0..3 {
                    after2.push(bits_vec(&chain.step().clone()));
                }
            });
            rep.evals(3);
            match r {
                Err(m) => {
                    rep.violation(&format!("{sig} panic after current_state was replaced"), mon, case, json!({"d_before": d, "d_after": d2, "panic": m}));
                    return;
                }
                Ok(()) => {
                    if check_history(rep, &format!("{sig} (after replacing current_state)"), mon, case, d2, &bits_vec(&init2), &chain.target.calls, &after2, 3) {
                        rep.count("chains_checked_after_state_replacement");
                    } else {
                        return;
                    }
                }
            }
        }
        // a conditional that fails in the middle of a sweep (caught by the caller): the next step is
        // again a complete sweep over the state as the failed one left it
        let dn = chain.current_state.len();
        if dn >= 2 {
            let k = g.range(1, dn - 1) as u64; // the failing call refreshes coordinate k >= 1 (if sweeps run in index order)
            chain.target.panic_at = Some(chain.target.counter + 1 + k);
            let failed = guard(|| {
                chain.step();
            });
            if failed.is_ok() {
                rep.inconclusive("injected conditional failure did not surface as a panic");
            } else {
                chain.target.panic_at = None;
                chain.target.calls.clear();
                let state_now = bits_vec(&chain.current_state);
                let mut after3 = vec![];
                let r = guard(|| {
                    for _ in 0..2 {
                        after3.push(bits_vec(&chain.step().clone()));
                    }
                });
                rep.evals(2);
                match r {
                    Err(m) => {
                        rep.violation(&format!("{sig} panic in the step after a caught failure of the conditional"), mon, case, json!({"d": dn, "panic": m}));
                        return;
                    }
                    Ok(()) => {
                        if check_history(rep, &format!("{sig} (after a caught failure of the conditional mid-sweep)"), mon, case, dn, &state_now, &chain.target.calls, &after3, 2) {
                            rep.count("chains_checked_after_a_caught_conditional_failure");
                        } else {
                            return;
                        }
                    }
                }
            }
        }
        rep.sample(json!({"mode": "direct", "S": S::NAME, "d": d, "steps": n_steps, "weird_values": weird,
            "first_calls": chain.target.calls.iter().take(3).map(|c| json!({"index": c.0, "answer_bits": c.2})).collect::<Vec<_>>()}));
    } else {
        // multi-chain sampler under rayon
        let n_chains = g.range(1, 16);
        let inits: Vec<Vec<S>> = (0..n_chains)
            .map(|c| (0..d).map(|i| S::unique(2_000_000 + (c * 100 + i) as u64, false)).collect())
            .collect();
        let mut sampler = GibbsSampler::new(rc, inits.clone());
        let n_discard = g.below(4);
        let n_collect = n_steps;
        let threads = *g.choose(&[1usize, 2, 3, 8, 16]);
        let pool = rayon::ThreadPoolBuilder::new().num_threads(threads).build().unwrap();
        let r = guard(|| pool.install(|| sampler.run(n_collect, n_discard)));
        rep.evals((n_chains * (n_collect + n_discard)) as u64);
        let arr = match r {
            Ok(Ok(a)) => a,
            Ok(Err(e)) => {
                rep.violation(&format!("{sig} run-error"), mon, case, json!({"err": format!("{e}")}));
                return;
            }
            Err(m) => {
                rep.violation(&format!("{sig} panic"), mon, case, json!({"panic": m}));
                return;
            }
        };
        for c in 0..n_chains {
            // states after each step as seen in the returned array (only the collected ones)
            let total = n_collect + n_discard;
            let calls = &sampler.chains[c].target.calls;
            if !check_history(rep, &sig, mon, case, d, &bits_vec(&inits[c]), calls, &[], total) {
                return;
            }
            // rows of the output equal the shadow states
            let mut shadow = bits_vec(&inits[c]);
            for s in 0..total {
                for k in 0..d {
                    let (idx, _, ans) = &calls[s * d + k];
                    shadow[*idx] = *ans;
                }
                if s >= n_discard {
                    let row: Vec<u64> = (0..d).map(|j| arr[[c, s - n_discard, j]].bits()).collect();
                    if row != shadow {
                        rep.violation(&format!("{sig} run-output-row-differs-from-swept-state"), mon, case,
                            json!({"chain": c, "row": s - n_discard, "d": d}));
                        return;
                    }
                    rep.held();
                }
            }
            rep.count("chains_checked_via_run");
        }
        rep.sample(json!({"mode": "GibbsSampler::run", "S": S::NAME, "d": d, "chains": n_chains, "threads": threads,
            "n_collect": n_collect, "n_discard": n_discard}));
    }
}

/// A conditional that itself runs a Gibbs chain (blocked / hierarchical samplers): every call of
/// the outer conditional performs one full sweep of an inner chain.
#[derive(Clone, Debug)]
pub struct NestCond {
    pub inner: GibbsMarkovChain<f64, RecCond<f64>>,
}
impl Conditional<f64> for NestCond {
    fn sample(&mut self, index: usize, _given: &[f64]) -> f64 {
        let s = self.inner.step();
        s[index % s.len()]
    }
}

fn nested_case(rep: &mut Report, case: u64, g: &mut Sm64) {
    let mon = "history";
    let sig = "GibbsMarkovChain::step (inner chain stepped from inside the outer chain's conditional)";
    let (d_out, d_in) = (g.range(1, 4), g.range(1, 6));
    let n_steps = g.range(1, 8);
    let init_in: Vec<f64> = (0..d_in).map(|i| <f64 as GElem>::unique(5_000_000 + i as u64, false)).collect();
    let rc = RecCond::<f64> { calls: vec![], counter: 0, weird: false, zeros: false, panic_at: None, _p: std::marker::PhantomData };
    let inner = GibbsMarkovChain::new(rc, &init_in);
    let init_out: Vec<f64> = (0..d_out).map(|i| -(i as f64) - 1.0).collect();
    let mut outer = GibbsMarkovChain::new(NestCond { inner }, &init_out);
    let r = guard(|| {
        for _ in 0..n_steps {
            outer.step();
        }
    });
    rep.evals(n_steps as u64);
    if let Err(m) = r {
        rep.violation(&format!("{sig} panic"), mon, case, json!({"d_outer": d_out, "d_inner": d_in, "panic": m}));
        return;
    }
    // every outer call = one inner sweep, each of them complete and conditioned on the freshest state
    let calls = &outer.target.inner.target.calls;
    if check_history(rep, sig, mon, case, d_in, &bits_vec(&init_in), calls, &[], n_steps * d_out) {
        rep.count("nested_chains_checked");
        rep.distinct(("nested", d_out, d_in, n_steps));
    }
}

pub fn run(ctx: &Ctx, rep: &mut Report) {
    for c in ctx.case_ids("nested", 60, 20_000) {
        let mut g = ctx.rng("nested", c);
        nested_case(rep, c, &mut g);
    }
    for c in ctx.case_ids("history", 1200, 2_000_000) {
        let mut g = ctx.rng("history", c);
        match c % 3 {
            0 => case::<f64>(ctx, rep, c, &mut g),
            1 => case::<f32>(ctx, rep, c, &mut g),
            _ => case::<i32>(ctx, rep, c, &mut g),
        }
    }
}
