//! C04 — NUTS step size: dual averaging during warm-up, frozen afterwards, positive and finite,
//! realised acceptance statistic close to the requested one on well-conditioned targets.

use crate::props::c02::{LibPair, Scalar};
use crate::props::c03::{parse, Trace};
use crate::refhmc::{self, DualAvg};
use crate::targets::*;
use crate::util::*;
use burn::backend::{Autodiff, NdArray};
use burn::tensor::backend::AutodiffBackend;
use mini_mcmc::distributions::{GradientTarget, Rosenbrock2D};
use mini_mcmc::nuts::NUTSChain;
use mini_mcmc::verif as hook;
use rand::rngs::SmallRng;
use rand::{Rng, SeedableRng};
use rand_distr::{Distribution, Exp1, StandardNormal, StandardUniform};
use serde_json::json;

type B32 = Autodiff<NdArray<f32>>;
type B64 = Autodiff<NdArray<f64>>;

fn stat_of(t: &Trace) -> f64 {
    t.alpha / t.n_alpha as f64
}

#[allow(clippy::too_many_arguments)]
fn adapt_case<T, B, G>(ctx: &Ctx, rep: &mut Report, case: u64, g: &mut Sm64, target: G, scale: f64, bname: &str)
where
    T: Scalar,
    B: AutodiffBackend,
    G: GradientTarget<T, B> + RefTarget + Sync,
    StandardNormal: Distribution<T>,
    StandardUniform: Distribution<T>,
    Exp1: Distribution<T>,
{
    let mon = "adapt";
    let sig = "NUTSChain dual averaging";
    let d = target.dim();
    let teps = if T::NAME == "f32" { f32::EPSILON as f64 } else { f64::EPSILON };
    let seed = g.next_u64();
    let init: Vec<T> = (0..d).map(|_| T::of(g.normal() * 1.5 * scale)).collect();
    let delta = T::of(g.uniform(0.5, 0.99));
    let warmups: &[usize] = if ctx.thorough { &[0, 1, 2, 10, 100, 500, 2000] } else { &[0, 1, 2, 10, 40, 120] };
    let n_runs = g.range(1, 3);
    let mut plan = vec![];
    for _ in 0..n_runs {
        let w = *g.choose(warmups);
        let w = if w >= 500 && g.chance(0.7) { 100 } else { w };
        plan.push((g.range(1, if w > 100 { 20 } else { 40 }), w));
    }
    let cfg = json!({"target": target.name(), "T": T::NAME, "backend": bname, "dim": d, "seed": seed, "delta": delta.f(), "runs(n_collect,n_discard)": plan,
        "init": init.iter().map(|x| x.f()).collect::<Vec<_>>()});
    rep.distinct(("adapt", target.name(), T::NAME, bname.to_string(), format!("{plan:?}"), case));
    let mut chain = NUTSChain::<T, B, G>::new(target.clone(), init.clone(), delta).set_seed(seed);
    // reference state
    let mut da = DualAvg { mu: f64::NAN, h_bar: 0.0, eps: f64::NAN, eps_bar: 1.0 };
    let mut frozen_bits: Option<u64> = None;
    // warm-up length in force when the most recent transition ran (a run call that performs no
    // transition - n_collect + n_discard = 1 - leaves it untouched)
    let mut nd_of_last_transition: Option<usize> = None;
    let mut first = true;
    let mut adapt_steps = 0u64;
    let mut frozen_steps = 0u64;
    for (ri, (n_collect, n_discard)) in plan.iter().enumerate() {
        // a user may re-seed the chain between runs: the adaptation state is not part of the random stream
        if ri > 0 && g.chance(0.3) {
            chain = chain.set_seed(g.next_u64());
            rep.count("chains_reseeded_between_runs");
        }
        let before = chain.verif_adapt_state();
        reset_budget(1 << 15);
        hook::enable();
        let r = guard(|| {
            let _ = chain.run(*n_collect, *n_discard);
        });
        let events = hook::take();
        hook::disable();
        reset_budget(u64::MAX);
        if let Err(m) = r {
            if m.contains(BUDGET_MSG) {
                rep.inconclusive("target-evaluation budget (2^15 per run) exhausted: trajectories too long to monitor");
                let st = chain.verif_adapt_state();
                rep.note(format!("budget exhausted: {} T={} {} run {ri} plan {plan:?} m={} eps={:?} eps_bar={:?}", target.name(), T::NAME, bname, st.0, st.1.f(), st.2.f()));
            } else {
                rep.violation(&format!("{sig} panic"), mon, case, json!({"cfg": cfg, "run": ri, "panic": m}));
            }
            return;
        }
        let traces = parse(&events);
        rep.evals(traces.len() as u64);
        let after = chain.verif_adapt_state();
        let (m_after, eps_after, eps_bar_after, h_bar_after, mu_after, nd_after) = (after.0, after.1.f(), after.2.f(), after.3.f(), after.4.f(), after.5);
        let detail = |what: &str, extra: serde_json::Value| json!({"cfg": cfg, "run": ri, "what": what, "state_after": {"m": m_after, "eps": fj(eps_after), "eps_bar": fj(eps_bar_after), "h_bar": fj(h_bar_after), "mu": fj(mu_after)}, "more": extra});
        if nd_after != *n_discard || m_after != before.0 + traces.len() {
            rep.violation(&format!("{sig} warm-up-counter-does-not-persist-or-count-transitions"), mon, case, detail("counters", json!({"m_before": before.0, "transitions": traces.len()})));
            return;
        }
        // step size at the start of this run
        let eps_start = if first {
            match traces.first() {
                Some(t) => t.epsilon,
                None => eps_after,
            }
        } else {
            before.1.f()
        };
        if !(eps_start > 0.0 && eps_start.is_finite()) {
            rep.violation(&format!("{sig} step-size-not-positive-and-finite"), mon, case, detail("eps at run start", json!({"eps_start": fj(eps_start)})));
            return;
        }
        if first {
            // eps0 is a function of target, start point and seed alone: the same chain built on a
            // fresh thread (no earlier sampler has run there) finds the same value
            let (tg, it, dl) = (target.clone(), init.clone(), delta);
            let fresh = std::thread::scope(|sc| {
                sc.spawn(move || {
                    let mut c = NUTSChain::<T, B, G>::new(tg, it, dl).set_seed(seed);
                    let _ = c.run(1, 0);
                    c.verif_adapt_state().1.f()
                })
                .join()
            });
            match fresh {
                Ok(e) if e.to_bits() == eps_start.to_bits() => rep.count("eps0_equal_on_a_fresh_thread"),
                Ok(e) => {
                    rep.violation(&format!("{sig} eps0-depends-on-what-ran-before-on-the-thread"), mon, case, detail("eps0", json!({"eps0_here": eps_start, "eps0_on_a_fresh_thread": e})));
                    return;
                }
                Err(_) => {}
            }
            // eps0 from the doubling/halving heuristic at the start point: post-condition
            let mut rng = SmallRng::seed_from_u64(seed);
            let mom0: Vec<f64> = (&mut rng).sample_iter(StandardNormal).take(d).map(|x: T| x.f()).collect();
            let theta: Vec<f64> = init.iter().map(|x| x.f()).collect();
            let g0 = target.grad(&theta);
            let a = |e: f64| -> f64 {
                let (x1, r1, _) = refhmc::leapfrog1(&target, &theta, &mom0, &g0, e);
                target.logp(&x1) - 0.5 * refhmc::dot(&r1, &r1) - target.logp(&theta) + 0.5 * refhmc::dot(&mom0, &mom0)
            };
            let l2 = eps_start.log2();
            if (l2 - l2.round()).abs() > 1e-6 {
                rep.violation(&format!("{sig} eps0-is-not-a-power-of-two-multiple-of-the-unit-start"), mon, case, detail("eps0", json!({"eps0": eps_start})));
                return;
            }
            let half = 0.5f64.ln();
            let vals: Vec<(f64, f64)> = [0.5, 1.0, 2.0, 4.0].iter().map(|k| (k * eps_start, a(k * eps_start))).collect();
            let tolx = |v: f64| 2e-3 * (1.0 + v.abs());
            let crossing = [(0usize, 1usize), (1, 2), (1, 3)].iter().any(|(lo, hi)| {
                let (al, ah) = (vals[*lo].1, vals[*hi].1);
                (al >= half - tolx(al) || al.is_nan()) && (ah <= half + tolx(ah) || ah.is_nan())
            });
            if !crossing {
                rep.violation(&format!("{sig} eps0-does-not-satisfy-the-heuristic's-post-condition"), mon, case,
                    detail("eps0", json!({"eps0": eps_start, "log_accept_at(eps0*[0.5,1,2,4])": vals.iter().map(|v| fj(v.1)).collect::<Vec<_>>(), "ln(1/2)": half})));
                return;
            }
            rep.count("eps0_postcondition_checked");
        }
        // shrinkage point
        let mu_want = (10.0 * eps_start).ln();
        if (mu_after - mu_want).abs() > 64.0 * teps * (1.0 + mu_want.abs()) {
            rep.violation(&format!("{sig} shrinkage-point-is-not-ln(10*eps-at-run-start)"), mon, case, detail("mu", json!({"mu": mu_after, "ln(10 eps_start)": mu_want})));
            return;
        }
        da.mu = mu_after;
        da.eps = eps_start;
        if first {
            da.h_bar = 0.0;
            da.eps_bar = 1.0;
        } else {
            // resync the reference at run boundaries with what the accessor reported (drift control)
            da.h_bar = before.3.f();
            da.eps_bar = before.2.f();
        }
        for (ti, t) in traces.iter().enumerate() {
            let tol_eps = |m: usize, da: &DualAvg| 8.0 * teps * (1.0 + (m as f64).sqrt() / 0.05 * (1.0 + da.h_bar.abs()) + da.mu.abs()) * da.eps.abs();
            // the step size used by this transition is the current iterate
            if !(t.epsilon > 0.0 && t.epsilon.is_finite()) {
                rep.violation(&format!("{sig} step-size-not-positive-and-finite"), mon, case, detail("eps during run", json!({"m": t.m, "eps": fj(t.epsilon)})));
                return;
            }
            let tol = tol_eps(t.m, &da);
            rep.max("eps_error_over_tol", (t.epsilon - da.eps).abs() / tol);
            if (t.epsilon - da.eps).abs() > tol {
                let nd_then = if ti == 0 { nd_of_last_transition.unwrap_or(*n_discard) } else { *n_discard };
                let phase = if t.m > 1 && t.m - 1 > nd_then { "frozen" } else { "adapting" };
                rep.violation(&format!("{sig} step-size-differs-from-the-recursion phase={phase}"), mon, case,
                    detail("eps", json!({"m": t.m, "eps_used": t.epsilon, "reference": da.eps, "tol": tol, "n_discard": n_discard})));
                return;
            }
            // frozen phase: bit-identical to the averaged iterate, never changing again
            // (the step size a transition uses was set at the end of the previous transition, which for
            // the first transition of a later run happened under the previous run's warm-up length)
            let nd_then = if ti == 0 { nd_of_last_transition.unwrap_or(*n_discard) } else { *n_discard };
            let was_set_after_warmup = t.m >= 2 && t.m - 1 > nd_then;
            if was_set_after_warmup {
                let b = t.epsilon.to_bits();
                match frozen_bits {
                    None => frozen_bits = Some(b),
                    Some(fb) if fb != b => {
                        rep.violation(&format!("{sig} step-size-changes-after-warm-up"), mon, case,
                            detail("frozen eps", json!({"m": t.m, "eps": t.epsilon, "previous_frozen_eps": f64::from_bits(fb)})));
                        return;
                    }
                    _ => {}
                }
                if (t.epsilon - da.eps_bar).abs() > tol {
                    rep.violation(&format!("{sig} frozen-step-size-is-not-the-averaged-iterate"), mon, case,
                        detail("frozen eps", json!({"m": t.m, "eps": t.epsilon, "reference_eps_bar": da.eps_bar})));
                    return;
                }
                frozen_steps += 1;
            } else {
                adapt_steps += 1;
            }
            let stat = stat_of(t);
            if !(0.0..=1.0 + 1e-6).contains(&stat) {
                rep.violation(&format!("{sig} acceptance-statistic-outside-[0,1]"), mon, case, detail("alpha/n_alpha", json!({"m": t.m, "stat": fj(stat)})));
                return;
            }
            da.update(t.m, delta.f(), stat, t.m <= *n_discard);
            if t.m <= *n_discard {
                // this transition's update adapted (possibly resumed in a later run): whatever was
                // frozen before may legitimately change now
                frozen_bits = None;
            }
            rep.held();
        }
        if !traces.is_empty() {
            nd_of_last_transition = Some(*n_discard);
        }
        // state after the run
        if !traces.is_empty() {
            let m_last = traces.last().unwrap().m;
            let tol = 8.0 * teps * (1.0 + (m_last as f64).sqrt() / 0.05 * (1.0 + da.h_bar.abs()) + da.mu.abs());
            let bad = (eps_after - da.eps).abs() > tol * da.eps.abs()
                || (eps_bar_after - da.eps_bar).abs() > tol * da.eps_bar.abs()
                || (h_bar_after - da.h_bar).abs() > 64.0 * teps * (1.0 + da.h_bar.abs());
            if bad {
                rep.violation(&format!("{sig} state-after-run-differs-from-the-recursion"), mon, case,
                    detail("final state", json!({"reference": {"eps": da.eps, "eps_bar": da.eps_bar, "h_bar": da.h_bar}})));
                return;
            }
            if m_last > *n_discard && eps_after.to_bits() != eps_bar_after.to_bits() {
                rep.violation(&format!("{sig} step-size-after-warm-up-is-not-bitwise-the-averaged-iterate"), mon, case, detail("final eps vs eps_bar", json!({})));
                return;
            }
            if let Some(fb) = frozen_bits {
                if m_last > *n_discard && eps_after.to_bits() != fb {
                    rep.violation(&format!("{sig} step-size-changes-after-warm-up"), mon, case, detail("final eps", json!({"frozen": f64::from_bits(fb)})));
                    return;
                }
            }
        }
        if !(eps_after > 0.0 && eps_after.is_finite() && eps_bar_after > 0.0 && eps_bar_after.is_finite()) {
            rep.violation(&format!("{sig} step-size-not-positive-and-finite"), mon, case, detail("after run", json!({})));
            return;
        }
        if !first && before.0 > 0 {
            rep.count("runs_resumed_on_same_chain");
        }
        first = false;
    }
    rep.count_n("steps_in_adaptation_phase", adapt_steps);
    rep.count_n("steps_in_frozen_phase", frozen_steps);
    let st = chain.verif_adapt_state();
    rep.sample(json!({"cfg": cfg, "final": {"m": st.0, "eps": st.1.f(), "eps_bar": st.2.f(), "h_bar": st.3.f(), "mu": st.4.f()}}));
}

/// realised acceptance statistic after warm-up on well-conditioned Gaussians
fn band_case(ctx: &Ctx, rep: &mut Report, case: u64, g: &mut Sm64) {
    let mon = "band";
    let d = g.range(1, 5);
    // an additive constant in the unnormalised log-density (e.g. a likelihood over many
    // observations) must not matter: only energy differences enter
    let shift = if g.chance(0.5) { 0.0 } else { g.log_uniform(1e6, 1e8) * if g.bool() { 1.0 } else { -1.0 } };
    let base = DenseGauss::random(g, d, 10.0);
    let target = Shifted { inner: base.clone(), c: shift };
    if shift != 0.0 {
        rep.count("band_cases_with_additive_constant");
    }
    let delta = *g.choose(&[0.6f64, 0.8, 0.9, 0.95]);
    let (warm, post, chains) = if ctx.thorough { (500, 300, 16) } else { (300, 150, 6) };
    let mut stats = vec![];
    let (mut ln_eps, mut ln_eps_twin) = (vec![], vec![]);
    for c in 0..chains {
        let init = base.draw(g);
        let seed = g.next_u64();
        let mut run_one = |tg: Shifted<DenseGauss>| -> Result<Vec<Trace>, String> {
            hook::enable();
            let r = guard(|| {
                let mut chain = NUTSChain::<f64, B64, Shifted<DenseGauss>>::new(tg, init.clone(), delta).set_seed(seed);
                let _ = chain.run(post, warm);
            });
            let events = hook::take();
            hook::disable();
            r.map(|_| parse(&events))
        };
        let tr = match run_one(target.clone()) {
            Ok(t) => t,
            Err(m) => {
                rep.violation("NUTSChain::run panic", mon, case, json!({"panic": m, "chain": c}));
                return;
            }
        };
        rep.evals(tr.len() as u64);
        let post_stats: Vec<f64> = tr.iter().filter(|t| t.m > warm + 1).map(stat_of).collect();
        stats.push(post_stats.iter().sum::<f64>() / post_stats.len() as f64);
        if shift != 0.0 {
            // the twin without the constant, same start and seed
            if let (Some(a), Ok(tw)) = (tr.last(), run_one(Shifted { inner: base.clone(), c: 0.0 })) {
                if let Some(b) = tw.last() {
                    ln_eps.push(a.epsilon.ln());
                    ln_eps_twin.push(b.epsilon.ln());
                }
            }
        }
    }
    if shift != 0.0 && ln_eps.len() == chains {
        // a sampler sees only differences of the log-density: up to rounding of size |c|*2^-52 in
        // the energies (which can flip a rare discrete decision in one chain) the adapted step
        // sizes coincide; chain-to-chain they scatter by ~10 %
        let m = |v: &Vec<f64>| v.iter().sum::<f64>() / v.len() as f64;
        let dlog = m(&ln_eps) - m(&ln_eps_twin);
        rep.max("abs_log_ratio_adapted_step_size_with_vs_without_additive_constant", dlog.abs());
        if dlog.abs() > 0.25 {
            rep.violation("NUTSChain adapted-step-size-depends-on-an-additive-constant-of-the-log-density", mon, case,
                json!({"additive_constant": shift, "delta": delta, "dim": d, "ln_eps_with": ln_eps, "ln_eps_without": ln_eps_twin}));
            return;
        }
        rep.held();
    }
    let mean = stats.iter().sum::<f64>() / stats.len() as f64;
    rep.distinct(("band", d, (delta * 100.0) as u64, case));
    rep.max(&format!("realised_minus_requested[delta={delta}]"), mean - delta);
    rep.max(&format!("requested_minus_realised[delta={delta}]"), delta - mean);
    // calibrated on the unchanged tree: the averaged iterate is conservative (realised >= requested)
    if mean < delta - 0.10 || mean > delta + (1.0 - delta) * 0.8 + 0.05 {
        rep.violation("NUTSChain realised-acceptance-statistic-far-from-requested", mon, case,
            json!({"delta": delta, "mean_post_warmup_statistic": mean, "per_chain": stats, "dim": d, "warmup": warm, "additive_constant": shift}));
        return;
    }
    rep.held();
    rep.count("band_cases");
    rep.sample(json!({"monitor": mon, "delta": delta, "dim": d, "mean_post_warmup_statistic": mean}));
}

/// targets with NaN regions: the step size must stay positive and finite however many leapfrog
/// steps land outside the support during warm-up
fn nan_region_case<T, B>(ctx: &Ctx, rep: &mut Report, case: u64, g: &mut Sm64, bname: &str)
where
    T: Scalar,
    B: AutodiffBackend,
    StandardNormal: Distribution<T>,
    StandardUniform: Distribution<T>,
    Exp1: Distribution<T>,
{
    let mon = "nanregion";
    let sig = "NUTSChain dual averaging (target with NaN region)";
    let kind = *g.choose(&[1u8, 3]);
    let d = g.range(1, 2);
    let h = Hostile { kind, d, p: g.uniform(1.0, 3.0) };
    let start = h.start(g);
    let warm = *g.choose(if ctx.thorough { &[100usize, 600, 1500][..] } else { &[100usize, 600][..] });
    let seed = g.next_u64();
    let delta = T::of(g.uniform(0.6, 0.9));
    let cfg = json!({"target": h.name(), "T": T::NAME, "backend": bname, "dim": d, "start": start, "warmup": warm, "seed": seed, "delta": delta.f()});
    rep.distinct(("nanregion", kind, T::NAME, bname.to_string(), warm, case));
    let init: Vec<T> = start.iter().map(|x| T::of(*x)).collect();
    let mut chain = NUTSChain::<T, B, Hostile>::new(h.clone(), init, delta).set_seed(seed);
    reset_budget(1 << 17);
    hook::enable();
    let r = guard(|| {
        let _ = chain.run(10, warm);
    });
    let events = hook::take();
    hook::disable();
    reset_budget(u64::MAX);
    let traces = parse(&events);
    rep.evals(traces.len() as u64);
    if let Err(m) = r {
        if m.contains(BUDGET_MSG) {
            rep.inconclusive("target-evaluation budget (2^17 per run) exhausted: trajectories too long to monitor");
        } else {
            rep.violation(&format!("{sig} panic"), mon, case, json!({"cfg": cfg, "panic": m}));
        }
        return;
    }
    let nan_leaves = traces.iter().map(|t| t.leaves.iter().filter(|l| l.0.is_nan()).count()).sum::<usize>();
    rep.count_n("leapfrog_steps_landing_in_a_NaN_region", nan_leaves as u64);
    for t in &traces {
        if !(t.epsilon > 0.0 && t.epsilon.is_finite()) {
            rep.violation(&format!("{sig} step-size-not-positive-and-finite"), mon, case,
                json!({"cfg": cfg, "m": t.m, "eps": fj(t.epsilon), "nan_leaves_so_far": nan_leaves}));
            return;
        }
        let stat = stat_of(t);
        if !(0.0..=1.0 + 1e-6).contains(&stat) {
            rep.violation(&format!("{sig} acceptance-statistic-outside-[0,1]"), mon, case, json!({"cfg": cfg, "m": t.m, "stat": fj(stat)}));
            return;
        }
    }
    let st = chain.verif_adapt_state();
    if !(st.1.f() > 0.0 && st.1.f().is_finite() && st.2.f() > 0.0 && st.2.f().is_finite()) {
        rep.violation(&format!("{sig} step-size-not-positive-and-finite"), mon, case, json!({"cfg": cfg, "eps": fj(st.1.f()), "eps_bar": fj(st.2.f())}));
        return;
    }
    rep.max("largest_step_size_on_nan_region_targets", traces.iter().map(|t| t.epsilon).fold(0.0, f64::max));
    rep.held();
    rep.count("nan_region_chains");
}

fn families<T, B>(ctx: &Ctx, rep: &mut Report, case: u64, g: &mut Sm64, bname: &str)
where
    T: Scalar,
    B: AutodiffBackend,
    StandardNormal: Distribution<T>,
    StandardUniform: Distribution<T>,
    Exp1: Distribution<T>,
{
    match g.below(7) {
        0 | 1 | 2 => {
            let d = g.range(1, 5);
            let t = DenseGauss::random(g, d, 10.0);
            adapt_case::<T, B, _>(ctx, rep, case, g, t, 1.0, bname)
        }
        3 => {
            // also very small and very large scales: the step-size search has to halve / double far
            let d = g.range(1, 8);
            let sc = match g.below(5) {
                0 => g.log_uniform(1e-6, 1e-3),
                1 => g.log_uniform(1e2, 1e4),
                // so narrow that the adapted step size falls below the scalar type's machine epsilon
                2 => {
                    rep.count("targets_narrower_than_machine_epsilon");
                    if T::NAME == "f32" { g.log_uniform(1e-11, 1e-8) } else { g.log_uniform(1e-19, 1e-16) }
                }
                _ => 1.0,
            };
            let t = DiagGauss::new((0..d).map(|_| g.log_uniform(0.1, 10.0) / (sc * sc)).collect(), vec![0.0; d]);
            adapt_case::<T, B, _>(ctx, rep, case, g, t, sc, bname)
        }
        4 => {
            let (a, b) = (T::of(1.0), T::of(g.log_uniform(1.0, 20.0)));
            let t = LibPair { lib: Rosenbrock2D { a, b }, reference: RosenRef { a: a.f(), b: b.f() } };
            adapt_case::<T, B, _>(ctx, rep, case, g, t, 0.5, bname)
        }
        5 => {
            let t = Quartic { d: g.range(1, 4) };
            adapt_case::<T, B, _>(ctx, rep, case, g, t, 0.7, bname)
        }
        _ => {
            let t = Funnel { d: g.range(2, 4), s: 3.0 };
            adapt_case::<T, B, _>(ctx, rep, case, g, t, 0.5, bname)
        }
    }
}

pub fn run(ctx: &Ctx, rep: &mut Report) {
    for c in ctx.case_ids("adapt", 200, 12_000) {
        let mut g = ctx.rng("adapt", c);
        match c % 4 {
            0 | 2 => families::<f64, B64>(ctx, rep, c, &mut g, "NdArray<f64>"),
            1 => families::<f32, B32>(ctx, rep, c, &mut g, "NdArray<f32>"),
            _ => families::<f32, B64>(ctx, rep, c, &mut g, "NdArray<f64>"),
        }
    }
    for c in ctx.case_ids("nanregion", 48, 2400) {
        let mut g = ctx.rng("nanregion", c);
        match c % 4 {
            0 | 2 => nan_region_case::<f32, B32>(ctx, rep, c, &mut g, "NdArray<f32>"),
            1 => nan_region_case::<f64, B64>(ctx, rep, c, &mut g, "NdArray<f64>"),
            _ => nan_region_case::<f32, B64>(ctx, rep, c, &mut g, "NdArray<f64>"),
        }
    }
    for c in ctx.case_ids("band", 12, 256) {
        let mut g = ctx.rng("band", c);
        band_case(ctx, rep, c, &mut g);
    }
}
