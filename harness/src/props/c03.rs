//! C03 — every NUTS transition is Hoffman–Gelman Algorithm 6 for the draws it made.
//!
//! Monitor `trace`: transitions of real chains (natural runs and forced step sizes) are recorded
//! by the hook and replayed by an f64 reference of Algorithm 6 that consumes the recorded momentum,
//! slice level, directions and uniforms. Discrete outcomes are compared when the reference's own
//! decisions are robust (nominal and perturbed reference runs agree); otherwise the robust
//! orbit-membership check applies. Monitor `tree`: the private build_tree / stop_criterion /
//! leapfrog are called through the verif wrappers with hostile arguments.

use crate::props::c02::{LibPair, Scalar};
use crate::refhmc::{self, Draws};
use crate::targets::*;
use crate::util::*;
use burn::backend::{Autodiff, NdArray};
use burn::prelude::*;
use burn::tensor::backend::AutodiffBackend;
use burn::tensor::Element;
use mini_mcmc::distributions::{GradientTarget, Rosenbrock2D};
use mini_mcmc::nuts::{verif_build_tree, verif_leapfrog, verif_stop_criterion, NUTSChain};
use mini_mcmc::verif as hook;
use mini_mcmc::verif::Event;
use rand::rngs::SmallRng;
use rand::SeedableRng;
use rand_distr::{Distribution, Exp1, StandardNormal, StandardUniform};
use serde_json::json;

type B32 = Autodiff<NdArray<f32>>;
type B64 = Autodiff<NdArray<f64>>;

impl<T, B, L, R> GradientTarget<T, B> for LibPair<L, R>
where
    T: num_traits::Float,
    B: AutodiffBackend,
    L: GradientTarget<T, B>,
{
    fn unnorm_logp(&self, position: Tensor<B, 1>) -> Tensor<B, 1> {
        tick();
        self.lib.unnorm_logp(position)
    }
}

/// one transition as recorded by the hook
#[derive(Clone, Debug, Default)]
pub struct Trace {
    pub m: usize,
    pub position: Vec<f64>,
    pub momentum: Vec<f64>,
    pub epsilon: f64,
    pub joint: f64,
    pub exp1: f64,
    pub logu: f64,
    pub dirs: Vec<(f64, i8)>,
    pub merge_u: Vec<(f64, usize, usize)>,
    pub accept_u: Vec<(f64, usize, usize, bool)>,
    pub leaves: Vec<(f64, usize, bool)>,
    pub depth: usize,
    pub n: usize,
    pub alpha: f64,
    pub n_alpha: usize,
    pub next: Vec<f64>,
    pub complete: bool,
}

pub fn parse(events: &[Event]) -> Vec<Trace> {
    let mut out = vec![];
    let mut cur: Option<Trace> = None;
    for e in events {
        match e {
            Event::NutsBegin { m, position, momentum, epsilon, joint, exp1, logu } => {
                if let Some(t) = cur.take() {
                    out.push(t);
                }
                cur = Some(Trace {
                    m: *m,
                    position: position.clone(),
                    momentum: momentum.clone(),
                    epsilon: *epsilon,
                    joint: *joint,
                    exp1: *exp1,
                    logu: *logu,
                    ..Default::default()
                });
            }
            Event::NutsDir { u, v, .. } => {
                if let Some(t) = cur.as_mut() {
                    t.dirs.push((*u, *v));
                }
            }
            Event::NutsLeaf { joint, n, s, .. } => {
                if let Some(t) = cur.as_mut() {
                    t.leaves.push((*joint, *n, *s));
                }
            }
            Event::NutsMergeU { u, n_first, n_second } => {
                if let Some(t) = cur.as_mut() {
                    t.merge_u.push((*u, *n_first, *n_second));
                }
            }
            Event::NutsAcceptU { u, n_prime, n, s_prime, .. } => {
                if let Some(t) = cur.as_mut() {
                    t.accept_u.push((*u, *n_prime, *n, *s_prime));
                }
            }
            Event::NutsEnd { depth, n, alpha, n_alpha, position } => {
                if let Some(mut t) = cur.take() {
                    t.depth = *depth;
                    t.n = *n;
                    t.alpha = *alpha;
                    t.n_alpha = *n_alpha;
                    t.next = position.clone();
                    t.complete = true;
                    out.push(t);
                }
            }
            _ => {}
        }
    }
    if let Some(t) = cur.take() {
        out.push(t);
    }
    out
}

fn jig(g: &mut Sm64, x: f64, eps: f64) -> f64 {
    let mag = (2.0 + 2.0 * g.f64()) * eps;
    x * (1.0 + if g.bool() { mag } else { -mag })
}

fn draws_of(t: &Trace) -> Draws {
    Draws {
        dirs: t.dirs.iter().map(|d| d.1).collect(),
        merge_u: t.merge_u.iter().map(|m| m.0).collect(),
        accept_u: t.accept_u.iter().map(|a| a.0).collect(),
    }
}

/// Checks one recorded transition. `beps`: rounding unit of the backend, `teps`: of the scalar type.
#[allow(clippy::too_many_arguments)]
pub fn check_transition<R: RefTarget>(
    rep: &mut Report,
    mon: &str,
    case: u64,
    g: &mut Sm64,
    target: &R,
    t: &Trace,
    beps: f64,
    teps: f64,
    cfg: &serde_json::Value,
) -> bool {
    let sig = "NUTSChain::step";
    let d = t.position.len();
    let tj = |extra: serde_json::Value| {
        json!({"cfg": cfg, "m": t.m, "position": fjv(&t.position), "momentum": fjv(&t.momentum), "epsilon": t.epsilon, "logu": fj(t.logu),
        "depth": t.depth, "n": t.n, "alpha": fj(t.alpha), "n_alpha": t.n_alpha, "next": fjv(&t.next), "directions": t.dirs.iter().map(|d| d.1).collect::<Vec<_>>(), "more": extra})
    };
    if !t.complete {
        rep.violation(&format!("{sig} transition-did-not-complete"), mon, case, tj(json!({})));
        return false;
    }
    // the directions are fair-coin decisions of the recorded uniforms
    for (u, v) in &t.dirs {
        let want: i8 = if *u < 0.5 { 1 } else { -1 };
        if *v != want {
            rep.violation(&format!("{sig} direction-is-not-the-sign-of-its-uniform"), mon, case, tj(json!({"u": u, "v": v})));
            return false;
        }
    }
    // slice level = joint(theta, r0) - Exp(1) draw
    let logp0 = target.logp(&t.position);
    let ke0 = 0.5 * refhmc::dot(&t.momentum, &t.momentum);
    let joint_ref = logp0 - ke0;
    let tol_j = 256.0 * beps.max(teps) * (logp0.abs() + ke0 + 1.0);
    if joint_ref.is_finite() {
        if !(t.exp1 >= 0.0) || (t.joint - joint_ref).abs() > tol_j || (t.logu - (t.joint - t.exp1)).abs() > 16.0 * teps * (t.joint.abs() + t.exp1 + 1.0) {
            rep.violation(&format!("{sig} slice-level-is-not-joint-minus-exponential-draw"), mon, case,
                tj(json!({"recorded_joint": fj(t.joint), "reference_joint": joint_ref, "exp1": fj(t.exp1)})));
            return false;
        }
    }
    // every leaf, in the sampler's own scalar arithmetic (the recorded values are exact images of
    // its scalars): admissible iff slice level < joint, still going iff slice level - 1000 < joint
    for (li, (joint, n, s)) in t.leaves.iter().enumerate() {
        let (want_n, want_s) = if teps > 1e-10 {
            let (lu, j) = (t.logu as f32, *joint as f32);
            (lu < j, lu - 1000.0f32 < j)
        } else {
            (t.logu < *joint, t.logu - 1000.0 < *joint)
        };
        if t.logu == *joint {
            rep.count("leaves_exactly_on_the_slice_level");
        }
        if (*n == 1) != want_n || *n > 1 || *s != want_s {
            rep.violation(&format!("{sig} leaf-admission-or-divergence-flag-differs-from-the-slice-rule"), mon, case,
                tj(json!({"leaf": li, "joint": fj(*joint), "n_recorded": n, "s_recorded": s, "slice_level_below_joint": want_n, "slice_level_minus_1000_below_joint": want_s})));
            return false;
        }
    }
    if !(t.epsilon > 0.0) || !t.epsilon.is_finite() {
        rep.inconclusive("step size not positive/finite (C04's business)");
        return true;
    }
    // reference runs: nominal + perturbed
    let max_depth = 14;
    let nominal = refhmc::transition(target, &t.position, &t.momentum, t.logu, joint_ref, t.epsilon, &mut draws_of(t), max_depth);
    let mut agree = !nominal.starved && nominal.leftover == 0;
    let mut sens_x = vec![0.0f64; d];
    let mut sens_alpha = 0.0f64;
    // the number of doublings depends only on the divergence and U-turn decisions
    let mut depth_agree = !nominal.saw_nan && nominal.depth <= max_depth;
    let mut margin_s = nominal.margin_s;
    for _ in 0..3 {
        let xp: Vec<f64> = t.position.iter().map(|v| jig(g, *v, beps)).collect();
        let rp: Vec<f64> = t.momentum.iter().map(|v| jig(g, *v, beps)).collect();
        let ep = jig(g, t.epsilon, beps.max(teps));
        let lu = t.logu + (if g.bool() { 1.0 } else { -1.0 }) * 4.0 * beps.max(teps) * (t.logu.abs() + 1.0);
        let jp = target.logp(&xp) - 0.5 * refhmc::dot(&rp, &rp);
        let p = refhmc::transition(target, &xp, &rp, lu, jp, ep, &mut draws_of(t), max_depth);
        if p.depth != nominal.depth || p.starved_top != nominal.starved_top || p.saw_nan {
            depth_agree = false;
        }
        margin_s = margin_s.min(p.margin_s);
        if p.depth != nominal.depth || p.n != nominal.n || p.adoptions != nominal.adoptions || p.n_alpha != nominal.n_alpha || p.starved || p.leftover != 0 {
            agree = false;
        }
        for k in 0..d {
            let s = (p.next[k] - nominal.next[k]).abs();
            sens_x[k] = if s.is_nan() { f64::INFINITY } else { sens_x[k].max(s) };
        }
        let s = (p.alpha - nominal.alpha).abs();
        sens_alpha = if s.is_nan() { f64::INFINITY } else { sens_alpha.max(s) };
    }
    let firm = agree && nominal.margin > 1e3 * beps.max(teps) && sens_x.iter().all(|s| s.is_finite());
    rep.count(&format!("depth[{}]", t.depth.min(12)));
    rep.distinct_in("direction sequences of a transition", t.dirs.iter().map(|d| d.1).collect::<Vec<_>>());
    rep.distinct_in("(depth, n, leaves) outcomes", (t.depth, t.n, t.leaves.len()));
    if nominal.diverged {
        rep.count("transitions_with_divergence");
    }
    if t.depth == 1 && t.n == 1 + t.accept_u.first().map(|a| a.1).unwrap_or(0) && !t.accept_u.first().map(|a| a.3).unwrap_or(true) {
        rep.count("first_doubling_stopped");
    }
    let second = t.merge_u.iter().filter(|(u, a, b)| *u < *b as f64 / ((a + b).max(1)) as f64).count();
    rep.count_n("selections_from_second_subtree", second as u64);
    if bits_eq(&t.next, &t.position) {
        rep.count("transitions_that_stayed");
    }
    let xscale = t.position.iter().chain(nominal.next.iter()).map(|v| v.abs()).fold(0.0, f64::max);
    // rounding accumulates along the trajectory: the margin asked of the go-on decisions grows with its length
    let thr_s = 1e3 * beps.max(teps) * (1.0 + nominal.leaves as f64 / 16.0);
    if depth_agree && margin_s > thr_s && margin_s.is_finite() {
        rep.count("transitions_with_firm_number_of_doublings");
        let detail = |what: &str| {
            tj(json!({"mismatch": what, "doublings_recorded": t.dirs.len(), "reference": {"doublings": nominal.depth, "directions_ran_out_while_still_going": nominal.starved_top,
                "leaves": nominal.leaves, "smallest_margin_of_U-turn/divergence_decisions": margin_s, "diverged": nominal.diverged}}))
        };
        if nominal.starved_top {
            rep.violation(&format!("{sig} stopped-doubling-although-trajectory-neither-turned-nor-diverged"), mon, case, detail("stopped early"));
            return false;
        }
        if t.dirs.len() != nominal.depth || t.depth != nominal.depth {
            rep.violation(&format!("{sig} number-of-doublings-differs-from-Algorithm-6"), mon, case, detail("depth"));
            return false;
        }
        rep.held();
    }
    if firm {
        let detail = |what: &str| {
            tj(json!({"mismatch": what, "reference": {"depth": nominal.depth, "n": nominal.n, "alpha": fj(nominal.alpha), "n_alpha": nominal.n_alpha,
            "next": fjv(&nominal.next), "diverged": nominal.diverged, "leaves": nominal.leaves}}))
        };
        if t.depth != nominal.depth {
            rep.violation(&format!("{sig} number-of-doublings-differs-from-Algorithm-6"), mon, case, detail("depth"));
            return false;
        }
        if t.n != nominal.n {
            rep.violation(&format!("{sig} number-of-slice-admissible-points-differs"), mon, case, detail("n"));
            return false;
        }
        if t.leaves.len() != nominal.leaves {
            rep.violation(&format!("{sig} number-of-leapfrog-steps-differs"), mon, case, detail("leaves"));
            return false;
        }
        let near = (0..d).all(|k| (t.next[k] - nominal.next[k]).abs() <= 50.0 * sens_x[k] + 256.0 * beps * (nominal.leaves as f64 + 1.0) * (xscale + 1.0));
        if !near {
            rep.violation(&format!("{sig} next-state-differs-from-Algorithm-6-selection"), mon, case, detail("next state"));
            return false;
        }
        if t.n_alpha != nominal.n_alpha {
            rep.violation(&format!("{sig} acceptance-statistic-count-differs"), mon, case, detail("n_alpha"));
            return false;
        }
        if !nominal.saw_nan && nominal.alpha.is_finite() {
            // rounding accumulates along the trajectory: the leaves of the last doubling are up to
            // `leaves` steps away from the start
            let ta = 50.0 * sens_alpha + 256.0 * beps.max(teps) * (nominal.n_alpha as f64) * (1.0 + t.joint.abs()) * (1.0 + (nominal.leaves as f64).log2()) + 1e-12;
            rep.max("alpha_error_over_tol", (t.alpha - nominal.alpha).abs() / ta);
            if (t.alpha - nominal.alpha).abs() > ta {
                rep.violation(&format!("{sig} acceptance-statistic-is-not-the-sum-of-min(1,exp(dH))-over-the-last-doubling"), mon, case, detail("alpha"));
                return false;
            }
        }
        rep.held();
        rep.count("transitions_fully_matched");
        return true;
    }
    // robust fallback: next state is the previous state or a slice-admissible point of the orbit
    rep.count("transitions_checked_by_orbit_membership_only");
    if bits_eq(&t.next, &t.position) {
        rep.held();
        return true;
    }
    let dirs: Vec<i8> = t.dirs.iter().map(|d| d.1).collect();
    if dirs.len() > 12 {
        rep.inconclusive("tree deeper than 12 doublings: orbit not re-integrated");
        return true;
    }
    let orb = refhmc::orbit(target, &t.position, &t.momentum, t.epsilon, &dirs);
    let slack_j = 1e-3 * (t.logu.abs() + 1.0);
    let rel = if beps > 1e-10 { 2e-3 } else { 1e-6 };
    let mut found = false;
    let mut unstable = false;
    for (x, j) in &orb {
        if !j.is_finite() || x.iter().any(|v| !v.is_finite()) {
            unstable = true;
            continue;
        }
        if *j > t.logu - slack_j && (0..d).all(|k| (t.next[k] - x[k]).abs() <= rel * (1.0 + x[k].abs() + xscale)) {
            found = true;
            break;
        }
    }
    if found {
        rep.held();
        true
    } else if unstable || orb.len() > (if beps > 1e-10 { 64 } else { 512 }) {
        rep.inconclusive("orbit unstable or long: membership not decidable at the fallback tolerance");
        true
    } else {
        rep.violation(&format!("{sig} next-state-is-not-a-slice-admissible-point-of-the-leapfrog-orbit"), mon, case,
            tj(json!({"orbit_points": orb.len(), "orbit_head": orb.iter().take(6).map(|(x, j)| json!({"x": fjv(x), "joint": fj(*j)})).collect::<Vec<_>>()})));
        false
    }
}

#[allow(clippy::too_many_arguments)]
fn trace_case<T, B, G>(ctx: &Ctx, rep: &mut Report, case: u64, g: &mut Sm64, target: G, scale: f64, bname: &str, beps: f64)
where
    T: Scalar,
    B: AutodiffBackend,
    G: GradientTarget<T, B> + RefTarget + Sync,
    StandardNormal: Distribution<T>,
    StandardUniform: Distribution<T>,
    Exp1: Distribution<T>,
{
    let mon = "trace";
    let d = target.dim();
    let teps = if T::NAME == "f32" { f32::EPSILON as f64 } else { f64::EPSILON };
    let seed = g.next_u64();
    let init: Vec<T> = (0..d).map(|_| T::of(g.normal() * 3.0 * scale)).collect();
    let delta = T::of(g.uniform(0.55, 0.95));
    let forced = g.chance(0.5);
    let (n_collect, n_discard) = if forced { (1, 0) } else { (g.range(3, if ctx.thorough { 40 } else { 14 }), *g.choose(&[0usize, 1, 2, 10, 30])) };
    let cfg = json!({"target": target.name(), "T": T::NAME, "backend": bname, "dim": d, "seed": seed, "mode": if forced { "forced step sizes" } else { "run" },
        "n_collect": n_collect, "n_discard": n_discard, "init": init.iter().map(|x| x.f()).collect::<Vec<_>>()});
    rep.distinct(("trace", target.name(), T::NAME, bname.to_string(), forced, n_collect, n_discard, case));
    reset_budget(1 << 15);
    hook::enable();
    let r = guard(|| {
        let mut chain = NUTSChain::<T, B, G>::new(target.clone(), init.clone(), delta).set_seed(seed);
        let _ = chain.run(n_collect, n_discard);
        if forced {
            let k = if ctx.thorough { 12 } else { 6 };
            for ki in 0..k {
                // the public field `position` may be reassigned between transitions (restart elsewhere)
                if ki == k / 2 && g.chance(0.5) {
                    let newpos: Vec<f64> = (0..d).map(|_| g.normal() * 2.0 * scale).collect();
                    chain.position = vt1::<B>(&newpos);
                }
                let e = match g.below(6) {
                    0 => g.log_uniform(2.0, 50.0) * scale,   // diverges or U-turns immediately
                    1 => g.log_uniform(5e-3, 5e-2) * scale,  // deep trees
                    _ => g.log_uniform(5e-2, 2.0) * scale,
                };
                chain.verif_set_epsilon(T::of(e));
                reset_budget(1 << 15);
                chain.step();
            }
        }
    });
    let events = hook::take();
    hook::disable();
    reset_budget(u64::MAX);
    if let Err(m) = r {
        if m.contains(BUDGET_MSG) {
            // tree depth is unbounded in the algorithm (no max depth in the statement): a very small
            // step size legitimately needs very many leapfrog steps; the budget only keeps the check finite
            rep.inconclusive("target-evaluation budget (2^15 per transition) exhausted: trajectory too long to monitor");
        } else {
            rep.violation("NUTSChain::step panic", mon, case, json!({"cfg": cfg, "panic": m}));
        }
        return;
    }
    let traces = parse(&events);
    rep.evals(traces.len() as u64);
    let expected = if forced { if ctx.thorough { 12 } else { 6 } } else { n_collect + n_discard - 1 };
    if traces.len() != expected {
        rep.violation("NUTSChain::run number-of-transitions", mon, case, json!({"cfg": cfg, "traced": traces.len(), "expected": expected}));
        return;
    }
    for t in &traces {
        if !check_transition(rep, mon, case, g, &target, t, beps, teps, &cfg) {
            return;
        }
    }
    // continuity: each transition starts where the previous one ended (natural runs only: in
    // forced mode the harness may have reassigned the public position field)
    for w in traces.windows(2) {
        if !forced && !bits_eq(&w[0].next, &w[1].position) {
            rep.violation("NUTSChain::step next-transition-does-not-start-at-the-previous-result", mon, case, json!({"cfg": cfg}));
            return;
        }
    }
    if let Some(t) = traces.first() {
        rep.sample(json!({"cfg": cfg, "first_transition": {"epsilon": t.epsilon, "depth": t.depth, "n": t.n, "alpha": fj(t.alpha), "n_alpha": t.n_alpha,
            "directions": t.dirs.iter().map(|d| d.1).collect::<Vec<_>>(), "next": fjv(&t.next)}}));
    }
}

/// A Gaussian centred far from the origin: the chain is started next to its mode and traced.
fn far_trace_case<T, B>(ctx: &Ctx, rep: &mut Report, case: u64, g: &mut Sm64, target: DiagGauss, bname: &str, beps: f64)
where
    T: Scalar,
    B: AutodiffBackend,
    StandardNormal: Distribution<T>,
    StandardUniform: Distribution<T>,
    Exp1: Distribution<T>,
{
    let mon = "trace";
    let d = target.dim();
    let teps = if T::NAME == "f32" { f32::EPSILON as f64 } else { f64::EPSILON };
    if T::NAME == "f32" {
        return; // an f32 start cannot resolve the offset
    }
    let seed = g.next_u64();
    let init: Vec<T> = (0..d).map(|k| T::of(target.mean[k] + g.normal())).collect();
    let n = if ctx.thorough { 30 } else { 12 };
    let cfg = json!({"target": target.name(), "mean_offset": target.mean[0], "T": T::NAME, "backend": bname, "dim": d, "seed": seed, "mode": "far from origin"});
    rep.distinct(("trace-far", T::NAME, bname.to_string(), d, case));
    rep.count("chains_far_from_origin");
    reset_budget(1 << 15);
    hook::enable();
    let r = guard(|| {
        let mut chain = NUTSChain::<T, B, DiagGauss>::new(target.clone(), init.clone(), T::of(0.8)).set_seed(seed);
        let _ = chain.run(n, 5);
    });
    let events = hook::take();
    hook::disable();
    reset_budget(u64::MAX);
    if let Err(m) = r {
        if m.contains(BUDGET_MSG) {
            rep.violation("NUTSChain::step runaway on a well-conditioned Gaussian far from the origin: 2^15 target evaluations in one run", mon, case, json!({"cfg": cfg}));
        } else {
            rep.violation("NUTSChain::step panic", mon, case, json!({"cfg": cfg, "panic": m}));
        }
        return;
    }
    let traces = parse(&events);
    rep.evals(traces.len() as u64);
    for t in &traces {
        if !check_transition(rep, mon, case, g, &target, t, beps, teps, &cfg) {
            return;
        }
    }
}

/// Long trajectories: an isotropic Gaussian of width sigma with a step size of sigma*pi/h needs about
/// h leapfrog steps before it turns around; h in 1100..1900 asks for an eleventh doubling (1024
/// leaves, "tree depth 10"), h in 2200..3800 for a twelfth.
fn deep_trace_case<T, B>(ctx: &Ctx, rep: &mut Report, case: u64, g: &mut Sm64, bname: &str, beps: f64)
where
    T: Scalar,
    B: AutodiffBackend,
    StandardNormal: Distribution<T>,
    StandardUniform: Distribution<T>,
    Exp1: Distribution<T>,
{
    let mon = "trace";
    let teps = if T::NAME == "f32" { f32::EPSILON as f64 } else { f64::EPSILON };
    let d = g.range(1, 3);
    let sigma = g.log_uniform(0.1, 1000.0);
    let target = DiagGauss::new(vec![1.0 / (sigma * sigma); d], (0..d).map(|_| g.uniform(-1.0, 1.0)).collect());
    let twelve = g.chance(if ctx.thorough { 0.3 } else { 0.15 });
    let h = if twelve { g.uniform(2200.0, 3800.0) } else { g.uniform(1100.0, 1900.0) };
    let eps = sigma * std::f64::consts::PI / h;
    let seed = g.next_u64();
    let init: Vec<T> = (0..d).map(|k| T::of(target.mean[k] + sigma * g.normal())).collect();
    let cfg = json!({"target": target.name(), "sigma": sigma, "T": T::NAME, "backend": bname, "dim": d, "seed": seed, "mode": "long trajectories (forced step size sigma*pi/h)", "h": h,
        "init": init.iter().map(|x| x.f()).collect::<Vec<_>>()});
    rep.distinct(("trace-deep", T::NAME, bname.to_string(), d, case));
    hook::enable();
    let r = guard(|| {
        let mut chain = NUTSChain::<T, B, DiagGauss>::new(target.clone(), init.clone(), T::of(0.8)).set_seed(seed);
        let _ = chain.run(1, 0);
        for _ in 0..2 {
            chain.verif_set_epsilon(T::of(eps));
            reset_budget(1 << 15);
            chain.step();
        }
    });
    let events = hook::take();
    hook::disable();
    reset_budget(u64::MAX);
    if let Err(m) = r {
        if m.contains(BUDGET_MSG) {
            rep.inconclusive("target-evaluation budget (2^15 per transition) exhausted: trajectory too long to monitor");
        } else {
            rep.violation("NUTSChain::step panic", mon, case, json!({"cfg": cfg, "panic": m}));
        }
        return;
    }
    let traces = parse(&events);
    rep.evals(traces.len() as u64);
    if traces.len() != 2 {
        rep.violation("NUTSChain::run number-of-transitions", mon, case, json!({"cfg": cfg, "traced": traces.len(), "expected": 2}));
        return;
    }
    for t in &traces {
        rep.count("long_trajectory_transitions");
        if !check_transition(rep, mon, case, g, &target, t, beps, teps, &cfg) {
            return;
        }
    }
}

/// Targets whose log-density is NaN outside the support (ln / sqrt of negative arguments), started
/// inside: a leaf with NaN energy is neither admissible nor "still going".
fn nan_region_trace_case<T, B>(ctx: &Ctx, rep: &mut Report, case: u64, g: &mut Sm64, bname: &str, beps: f64)
where
    T: Scalar,
    B: AutodiffBackend,
    StandardNormal: Distribution<T>,
    StandardUniform: Distribution<T>,
    Exp1: Distribution<T>,
{
    let mon = "trace";
    let teps = if T::NAME == "f32" { f32::EPSILON as f64 } else { f64::EPSILON };
    let target = Hostile { kind: if g.bool() { 1 } else { 3 }, d: g.range(1, 3), p: g.uniform(0.8, 2.5) };
    let seed = g.next_u64();
    let start = target.start(g);
    let init: Vec<T> = start.iter().map(|x| T::of(*x)).collect();
    let q: Vec<f64> = init.iter().map(|x| x.f()).collect();
    if !target.logp64(&q).is_finite() {
        return;
    }
    let n = if ctx.thorough { 24 } else { 12 };
    let cfg = json!({"target": Hostile::name(&target), "T": T::NAME, "backend": bname, "dim": target.d, "seed": seed, "mode": "NaN outside the support", "init": q});
    rep.distinct(("trace-nan", T::NAME, bname.to_string(), target.kind, case));
    reset_budget(1 << 15);
    hook::enable();
    let r = guard(|| {
        let mut chain = NUTSChain::<T, B, Hostile>::new(target.clone(), init.clone(), T::of(0.8)).set_seed(seed);
        let _ = chain.run(n, *g.choose(&[0usize, 3]));
    });
    let events = hook::take();
    hook::disable();
    reset_budget(u64::MAX);
    if let Err(m) = r {
        if m.contains(BUDGET_MSG) {
            rep.inconclusive("target-evaluation budget (2^15 per transition) exhausted: trajectory too long to monitor");
        } else {
            rep.violation("NUTSChain::step panic", mon, case, json!({"cfg": cfg, "panic": m}));
        }
        return;
    }
    let traces = parse(&events);
    rep.evals(traces.len() as u64);
    for t in &traces {
        let nan_leaves = t.leaves.iter().filter(|l| l.0.is_nan()).count();
        rep.count_n("leaves_with_NaN_energy", nan_leaves as u64);
        if !check_transition(rep, mon, case, g, &target, t, beps, teps, &cfg) {
            return;
        }
    }
}

fn tv1<B: Backend>(t: &Tensor<B, 1>) -> Vec<f64> {
    t.to_data().iter::<f64>().collect()
}

#[allow(clippy::too_many_arguments)]
fn tree_case<T, B, G>(ctx: &Ctx, rep: &mut Report, case: u64, g: &mut Sm64, target: G, scale: f64, bname: &str, beps: f64)
where
    T: Scalar,
    B: AutodiffBackend,
    G: GradientTarget<T, B> + RefTarget + Sync,
{
    let mon = "tree";
    let sig = "build_tree";
    let d = target.dim();
    let teps = if T::NAME == "f32" { f32::EPSILON as f64 } else { f64::EPSILON };
    let q = |v: f64| -> f64 { if beps > 1e-10 { (v as f32) as f64 } else { v } };
    let theta: Vec<f64> = (0..d).map(|_| q(g.normal() * 2.0 * scale)).collect();
    let r0: Vec<f64> = (0..d).map(|_| q(g.normal())).collect();
    let j = if ctx.thorough { g.range(0, 10) } else { g.range(0, 7) };
    let v: i8 = if g.bool() { 1 } else { -1 };
    let eps = T::of(match g.below(5) {
        0 => g.log_uniform(2.0, 100.0) * scale,
        1 => g.log_uniform(1e-3, 1e-2) * scale,
        _ => g.log_uniform(1e-2, 2.0) * scale,
    })
    .f();
    let joint0 = target.logp(&theta) - 0.5 * refhmc::dot(&r0, &r0);
    let logu = T::of(joint0 - match g.below(7) {
        0 => 0.01,
        1 => 1.0,
        2 => 5.0,
        3 => 50.0,
        4 => 2000.0,
        5 => -1.0, // above the start: nothing is admissible at first
        _ => g.uniform(0.0, 3.0),
    })
    .f();
    let seed = g.next_u64();
    let cfg = json!({"target": target.name(), "T": T::NAME, "backend": bname, "theta": theta, "r": r0, "j": j, "v": v, "epsilon": eps, "logu": logu, "joint0": joint0, "seed": seed});
    rep.distinct(("tree", target.name(), T::NAME, bname.to_string(), j, v, case));
    let grad0 = target.grad(&theta);
    reset_budget(1 << 14);
    hook::enable();
    let r = guard(|| {
        let mut rng = SmallRng::seed_from_u64(seed);
        let tr = verif_build_tree::<B, T, G>(vt1::<B>(&theta), vt1::<B>(&r0), vt1::<B>(&grad0), T::of(logu), v, j, T::of(eps), &target, T::of(joint0), &mut rng);
        (tv1(&tr.position_minus), tv1(&tr.mom_minus), tv1(&tr.position_plus), tv1(&tr.mom_plus), tv1(&tr.position_prime), tr.n_prime, tr.s_prime, tr.alpha_prime.f(), tr.n_alpha_prime)
    });
    let events = hook::take();
    hook::disable();
    reset_budget(u64::MAX);
    rep.eval();
    let (xm, rm, xp, rp, xprime, n, s, alpha, n_alpha) = match r {
        Ok(x) => x,
        Err(m) => {
            rep.violation(&format!("{sig} panic"), mon, case, json!({"cfg": cfg, "panic": m}));
            return;
        }
    };
    let merges: Vec<f64> = events.iter().filter_map(|e| if let Event::NutsMergeU { u, .. } = e { Some(*u) } else { None }).collect();
    let n_leaves = events.iter().filter(|e| matches!(e, Event::NutsLeaf { .. })).count();
    let mk = || Draws { dirs: Default::default(), merge_u: merges.iter().cloned().collect(), accept_u: Default::default() };
    let mut dr = mk();
    let nominal = refhmc::build_tree(&target, &theta, &r0, &grad0, logu, v, j, eps, joint0, &mut dr);
    let mut agree = !nominal.starved && dr.merge_u.is_empty();
    let mut sens = 0.0f64;
    let mut sens_alpha = 0.0f64;
    for _ in 0..3 {
        let xq: Vec<f64> = theta.iter().map(|x| jig(g, *x, beps)).collect();
        let rq: Vec<f64> = r0.iter().map(|x| jig(g, *x, beps)).collect();
        let gq = target.grad(&xq);
        let lu = logu + (if g.bool() { 1.0 } else { -1.0 }) * 4.0 * beps.max(teps) * (logu.abs() + 1.0);
        let mut dq = mk();
        let p = refhmc::build_tree(&target, &xq, &rq, &gq, lu, v, j, jig(g, eps, beps.max(teps)), joint0, &mut dq);
        if p.n != nominal.n || p.s != nominal.s || p.n_alpha != nominal.n_alpha || p.starved || !dq.merge_u.is_empty() {
            agree = false;
        }
        for (a, b) in [(&p.xm, &nominal.xm), (&p.xp, &nominal.xp), (&p.rm, &nominal.rm), (&p.rp, &nominal.rp), (&p.xprime, &nominal.xprime)] {
            for k in 0..d {
                let e = (a[k] - b[k]).abs();
                sens = if e.is_nan() { f64::INFINITY } else { sens.max(e) };
            }
        }
        let e = (p.alpha - nominal.alpha).abs();
        sens_alpha = if e.is_nan() { f64::INFINITY } else { sens_alpha.max(e) };
    }
    rep.count(&format!("tree_depth[{j}]"));
    rep.count(if v == 1 { "tree_forward" } else { "tree_backward" });
    if nominal.diverged {
        rep.count("trees_with_divergence");
    }
    if !nominal.s && nominal.leaves < (1 << j) {
        rep.count("trees_stopped_early");
    }
    if !(agree && nominal.margin > 1e3 * beps.max(teps) && sens.is_finite()) {
        rep.inconclusive("a reference decision is within rounding margin (nominal and perturbed reference disagree)");
        return;
    }
    let scale_x = nominal.xm.iter().chain(nominal.xp.iter()).chain(nominal.rm.iter()).chain(nominal.rp.iter()).map(|x| x.abs()).fold(0.0, f64::max);
    let limit = if beps > 1e-10 { 1e30 } else { 1e300 };
    if scale_x > limit || !scale_x.is_finite() {
        rep.inconclusive("trajectory leaves the backend's floating-point range");
        return;
    }
    let tol = 50.0 * sens + 256.0 * beps * (nominal.leaves as f64 + 1.0) * (scale_x + 1.0);
    let reference = json!({"n": nominal.n, "s": nominal.s, "alpha": fj(nominal.alpha), "n_alpha": nominal.n_alpha, "leaves": nominal.leaves, "x_minus": fjv(&nominal.xm), "x_plus": fjv(&nominal.xp), "x_prime": fjv(&nominal.xprime)});
    let got = json!({"n": n, "s": s, "alpha": fj(alpha), "n_alpha": n_alpha, "leaves": n_leaves, "x_minus": fjv(&xm), "x_plus": fjv(&xp), "x_prime": fjv(&xprime)});
    let fail = |what: &str, rep: &mut Report| {
        rep.violation(&format!("{sig} {what}"), mon, case, json!({"cfg": cfg, "got": got, "reference": reference, "tol": tol}));
    };
    if n != nominal.n {
        return fail("n'-differs (slice test)", rep);
    }
    if s != nominal.s {
        return fail("s'-differs (divergence bound / U-turn / propagation of a stopped subtree)", rep);
    }
    if n_leaves != nominal.leaves {
        return fail("number-of-leapfrog-steps-differs (second subtree built after the first one stopped, or not built)", rep);
    }
    if n_alpha != nominal.n_alpha {
        return fail("n_alpha-differs", rep);
    }
    let cmp = |a: &[f64], b: &[f64]| (0..d).all(|k| (a[k] - b[k]).abs() <= tol || (a[k].is_nan() && b[k].is_nan()));
    if !cmp(&xm, &nominal.xm) || !cmp(&xp, &nominal.xp) || !cmp(&rm, &nominal.rm) || !cmp(&rp, &nominal.rp) {
        return fail("tree-edges-differ", rep);
    }
    if !cmp(&xprime, &nominal.xprime) {
        return fail("selected-proposal-differs (uniform selection between subtrees)", rep);
    }
    if !nominal.saw_nan {
        let ta = 50.0 * sens_alpha + 256.0 * beps.max(teps) * nominal.n_alpha as f64 * (1.0 + joint0.abs()) * (1.0 + (nominal.leaves as f64).log2()) + 1e-12;
        if (alpha - nominal.alpha).abs() > ta {
            return fail("alpha-differs", rep);
        }
    }
    rep.held();
    if case < 12 {
        rep.sample(json!({"monitor": mon, "cfg": cfg, "result": got}));
    }
}

fn small_fns<B: AutodiffBackend>(rep: &mut Report, case: u64, g: &mut Sm64, beps: f64, bname: &str) {
    let mon = "stop";
    let d = g.range(1, 8);
    let q = |v: f64| -> f64 { if beps > 1e-10 { (v as f32) as f64 } else { v } };
    let mut vecs: Vec<Vec<f64>> = (0..4).map(|_| (0..d).map(|_| q(g.normal())).collect()).collect();
    // far from the origin relative to the span (only resolvable on the f64 backend)
    if beps < 1e-10 && g.chance(0.3) {
        let off = g.log_uniform(1e3, 1e10) * if g.bool() { 1.0 } else { -1.0 };
        for k in 0..d {
            vecs[0][k] += off;
            vecs[1][k] += off;
        }
    }
    match g.below(5) {
        0 => vecs[1] = vecs[0].clone(),                                   // zero span
        1 => vecs[2] = vec![0.0; d],                                      // zero momentum
        2 => vecs[3] = (0..d).map(|k| -(vecs[1][k] - vecs[0][k])).collect(), // exactly opposing
        _ => {}
    }
    let diff: Vec<f64> = (0..d).map(|k| vecs[1][k] - vecs[0][k]).collect();
    let (dm, dp) = (refhmc::dot(&diff, &vecs[2]), refhmc::dot(&diff, &vecs[3]));
    let far = vecs[0].iter().map(|v| v.abs()).fold(0.0, f64::max) > 100.0;
    if far {
        rep.count("stop_criterion_far_from_origin");
    }
    let want = dm >= 0.0 && dp >= 0.0;
    rep.eval();
    let got = match guard(|| verif_stop_criterion::<B>(vt1::<B>(&vecs[0]), vt1::<B>(&vecs[1]), vt1::<B>(&vecs[2]), vt1::<B>(&vecs[3]))) {
        Ok(b) => b,
        Err(m) => {
            rep.violation("stop_criterion panic", mon, case, json!({"panic": m}));
            return;
        }
    };
    rep.distinct(("stop", d, bname.to_string(), case));
    let scale = refhmc::dot(&diff, &diff).sqrt() * refhmc::dot(&vecs[2], &vecs[2]).sqrt().max(refhmc::dot(&vecs[3], &vecs[3]).sqrt());
    // exact zeros (zero span, zero momentum) are decided in any precision; other values need a margin
    let thr = 64.0 * beps * (scale + 1e-300) * d as f64;
    if [dm, dp].iter().any(|v| *v != 0.0 && v.abs() <= thr) {
        rep.inconclusive("U-turn dot product within rounding of zero");
        return;
    }
    if got != want {
        rep.violation("stop_criterion differs-from-(x+ - x-).r- >= 0 and (x+ - x-).r+ >= 0", mon, case,
            json!({"backend": bname, "x_minus": vecs[0], "x_plus": vecs[1], "r_minus": vecs[2], "r_plus": vecs[3], "dot_minus": dm, "dot_plus": dp, "continue": got}));
        return;
    }
    rep.count(if want { "stop_criterion_continue" } else { "stop_criterion_uturn" });
    rep.held();
}

fn families<T, B>(ctx: &Ctx, rep: &mut Report, case: u64, g: &mut Sm64, bname: &str, beps: f64, tree: bool)
where
    T: Scalar,
    B: AutodiffBackend,
    StandardNormal: Distribution<T>,
    StandardUniform: Distribution<T>,
    Exp1: Distribution<T>,
{
    macro_rules! go {
        ($t:expr, $s:expr) => {
            if tree {
                tree_case::<T, B, _>(ctx, rep, case, g, $t, $s, bname, beps)
            } else {
                trace_case::<T, B, _>(ctx, rep, case, g, $t, $s, bname, beps)
            }
        };
    }
    match g.below(8) {
        0 | 1 => {
            let d = g.range(1, 8);
            let t = DenseGauss::random(g, d, 30.0);
            go!(t, 1.0)
        }
        2 => {
            let d = g.range(1, 8);
            // sometimes centred far from the origin relative to its width (f64 backends can resolve that)
            let off = if beps < 1e-10 && g.chance(0.4) { g.log_uniform(1e3, 1e9) } else { 0.0 };
            let t = DiagGauss::new((0..d).map(|_| g.log_uniform(0.1, 10.0)).collect(), (0..d).map(|_| off + g.uniform(-1.0, 1.0)).collect());
            if off != 0.0 {
                far_trace_case::<T, B>(ctx, rep, case, g, t, bname, beps);
                return;
            }
            // an additive constant of large magnitude on double-precision backends
            if beps < 1e-10 && T::NAME == "f64" && g.chance(0.4) {
                let c = g.log_uniform(1e2, 1e8) * if g.bool() { 1.0 } else { -1.0 };
                rep.count("targets_with_additive_constant");
                go!(Shifted { inner: t, c }, 1.0)
            } else if T::NAME == "f32" && g.chance(0.3) {
                // single-precision scalars with a constant so large that the Exp(1) slice draw is
                // lost to rounding: leaves land exactly on the slice level
                let c = g.log_uniform(2e7, 2e9) * if g.bool() { 1.0 } else { -1.0 };
                rep.count("targets_with_additive_constant_f32_scalar");
                go!(Shifted { inner: t, c }, 1.0)
            } else {
                go!(t, 1.0)
            }
        }
        3 | 4 => {
            let (a, b) = (T::of(g.uniform(0.5, 2.0)), T::of(g.log_uniform(1.0, 30.0)));
            let t = LibPair { lib: Rosenbrock2D { a, b }, reference: RosenRef { a: a.f(), b: b.f() } };
            go!(t, 0.3)
        }
        5 => {
            let t = Funnel { d: g.range(2, 6), s: 3.0 };
            go!(t, 0.7)
        }
        6 => {
            let t = Quartic { d: g.range(1, 6) };
            go!(t, 0.7)
        }
        _ => {
            let t = StudentT { d: g.range(1, 8), nu: g.uniform(1.5, 8.0) };
            go!(t, 1.0)
        }
    }
}

pub fn run(ctx: &Ctx, rep: &mut Report) {
    let e32 = f32::EPSILON as f64;
    let e64 = f64::EPSILON;
    for c in ctx.case_ids("trace", 320, 160_000) {
        let mut g = ctx.rng("trace", c);
        if c % 16 == 3 {
            if (c / 16) % 2 == 0 {
                nan_region_trace_case::<f64, B64>(ctx, rep, c, &mut g, "NdArray<f64>", e64);
            } else {
                nan_region_trace_case::<f32, B32>(ctx, rep, c, &mut g, "NdArray<f32>", e32);
            }
            continue;
        }
        if c % (if ctx.thorough { 48 } else { 16 }) == 11 {
            if (c / 48) % 4 == 3 {
                deep_trace_case::<f32, B32>(ctx, rep, c, &mut g, "NdArray<f32>", e32);
            } else {
                deep_trace_case::<f64, B64>(ctx, rep, c, &mut g, "NdArray<f64>", e64);
            }
            continue;
        }
        match c % 8 {
            0 | 2 | 4 => families::<f64, B64>(ctx, rep, c, &mut g, "NdArray<f64>", e64, false),
            1 | 5 => families::<f32, B32>(ctx, rep, c, &mut g, "NdArray<f32>", e32, false),
            6 => families::<f64, B32>(ctx, rep, c, &mut g, "NdArray<f32>", e32, false),
            _ => families::<f32, B64>(ctx, rep, c, &mut g, "NdArray<f64>", e64, false),
        }
    }
    for c in ctx.case_ids("tree", 1600, 640_000) {
        let mut g = ctx.rng("tree", c);
        match c % 4 {
            0 | 2 => families::<f64, B64>(ctx, rep, c, &mut g, "NdArray<f64>", e64, true),
            1 => families::<f32, B32>(ctx, rep, c, &mut g, "NdArray<f32>", e32, true),
            _ => families::<f64, B32>(ctx, rep, c, &mut g, "NdArray<f32>", e32, true),
        }
    }
    for c in ctx.case_ids("stop", 2000, 1_000_000) {
        let mut g = ctx.rng("stop", c);
        if c % 2 == 0 {
            small_fns::<B64>(rep, c, &mut g, e64, "NdArray<f64>");
        } else {
            small_fns::<B32>(rep, c, &mut g, e32, "NdArray<f32>");
        }
    }
}
