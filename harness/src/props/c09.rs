//! C09 — run(): shape, chain order, burn-in discard and continuation are exact.
//!
//! Monitor `counting`: user-defined MarkovChain/HasChains whose state encodes (transition count,
//! chain id), so every cell of the returned array identifies where it came from.
//! Monitor `real`: MH / Gibbs / HMC seeded twins (continuation, manual stepping), NUTS via the
//! per-transition trace and the adaptation accessor.

use crate::targets::*;
use crate::util::*;
use burn::backend::{Autodiff, NdArray};
use burn::tensor::Tensor;
use mini_mcmc::core::{ChainRunner, HasChains, MarkovChain};
use mini_mcmc::distributions::{Conditional, IsotropicGaussian, Proposal};
use mini_mcmc::gibbs::GibbsSampler;
use mini_mcmc::hmc::HMC;
use mini_mcmc::metropolis_hastings::MetropolisHastings;
use mini_mcmc::nuts::{NUTSChain, NUTS};
use mini_mcmc::verif as hook;
use serde_json::json;

#[derive(Clone, Debug)]
pub struct CountChain<T> {
    pub state: Vec<T>,
    pub id: usize,
    pub steps: u64,
    pub sleep_us: u64,
}
pub trait CElem: ndarray::LinalgScalar + PartialEq + Send + num_traits::ToPrimitive + Bits + std::fmt::Debug {
    const NAME: &'static str;
    fn of(x: u64) -> Self;
}
impl CElem for f64 {
    const NAME: &'static str = "f64";
    fn of(x: u64) -> f64 {
        x as f64
    }
}
impl CElem for i32 {
    const NAME: &'static str = "i32";
    fn of(x: u64) -> i32 {
        x as i32
    }
}
impl CElem for f32 {
    const NAME: &'static str = "f32";
    fn of(x: u64) -> f32 {
        x as f32
    }
}
pub fn count_state<T: CElem>(steps: u64, id: usize, dim: usize) -> Vec<T> {
    (0..dim)
        .map(|j| match j {
            0 => T::of(steps),
            1 => T::of(id as u64),
            _ => T::of((steps * 31 + id as u64 * 7 + j as u64) % 4096),
        })
        .collect()
}
impl<T: CElem> MarkovChain<T> for CountChain<T> {
    fn step(&mut self) -> &Vec<T> {
        self.steps += 1;
        if self.sleep_us > 0 {
            std::thread::sleep(std::time::Duration::from_micros(self.sleep_us));
        }
        self.state = count_state(self.steps, self.id, self.state.len());
        &self.state
    }
    fn current_state(&self) -> &Vec<T> {
        &self.state
    }
}
pub struct CountSampler<T> {
    pub chains: Vec<CountChain<T>>,
}
impl<T: CElem> HasChains<T> for CountSampler<T> {
    type Chain = CountChain<T>;
    fn chains_mut(&mut self) -> &mut Vec<CountChain<T>> {
        &mut self.chains
    }
}

fn counting_case<T: CElem>(ctx: &Ctx, rep: &mut Report, case: u64, g: &mut Sm64) {
    let mon = "counting";
    let sig = format!("ChainRunner::run counting-chain T={}", T::NAME);
    let n_chains = if g.chance(0.2) { *g.choose(&[1usize, 2, 31, 32]) } else { g.range(1, 32) };
    let dim = if g.chance(0.2) { *g.choose(&[1usize, 2, 16]) } else { g.range(1, 16) };
    let threads = *g.choose(&[1usize, 2, 3, 5, 8, 16]);
    let sleepy = g.chance(0.15);
    let n_runs = g.range(1, 3);
    let mut sampler = CountSampler {
        chains: (0..n_chains)
            .map(|id| CountChain {
                state: count_state::<T>(0, id, dim),
                id,
                steps: 0,
                sleep_us: if sleepy { g.below(300) as u64 } else { 0 },
            })
            .collect(),
    };
    let pool = rayon::ThreadPoolBuilder::new().num_threads(threads).build().unwrap();
    let mut done = 0u64;
    let mut history = vec![];
    for _ in 0..n_runs {
        let n_collect = if g.chance(0.15) { 0 } else { g.range(0, 40) };
        let n_discard = if g.chance(0.3) { 0 } else { g.range(0, 40) };
        history.push((n_collect, n_discard));
        let r = guard(|| pool.install(|| sampler.run(n_collect, n_discard)));
        rep.eval();
        let arr = match r {
            Ok(Ok(a)) => a,
            Ok(Err(e)) => {
                // ndarray cannot stack zero chains... n_chains >= 1 here, so an error is a violation
                rep.violation(&format!("{sig} run-returned-error"), mon, case, json!({"err": format!("{e}"), "history": history}));
                return;
            }
            Err(m) => {
                rep.violation(&format!("{sig} panic"), mon, case, json!({"panic": m, "history": history}));
                return;
            }
        };
        if arr.shape() != [n_chains, n_collect, dim] {
            rep.violation(&format!("{sig} shape"), mon, case,
                json!({"shape": arr.shape(), "expected": [n_chains, n_collect, dim], "history": history}));
            return;
        }
        for c in 0..n_chains {
            for k in 0..n_collect {
                let exp = count_state::<T>(done + (n_discard + k + 1) as u64, c, dim);
                let row: Vec<T> = (0..dim).map(|j| arr[[c, k, j]]).collect();
                if !bits_eq(&row, &exp) {
                    rep.violation(&format!("{sig} cell-is-not-chain-c-after-n_discard+k+1-transitions"), mon, case,
                        json!({"chain": c, "k": k, "got": f64_vec(&row), "expected": f64_vec(&exp), "history": history, "threads": threads}));
                    return;
                }
            }
            let total = done + (n_collect + n_discard) as u64;
            if sampler.chains[c].steps != total {
                rep.violation(&format!("{sig} number-of-transitions"), mon, case,
                    json!({"chain": c, "steps": sampler.chains[c].steps, "expected": total, "history": history}));
                return;
            }
        }
        done += (n_collect + n_discard) as u64;
        rep.held();
        rep.distinct(("count", T::NAME, n_chains, n_collect, n_discard, dim, threads));
        rep.distinct_in("(n_chains, n_collect, n_discard) grid points", (n_chains, n_collect, n_discard));
        rep.distinct_in("rayon pool sizes", threads);
    }
    rep.count("counting_histories");
    rep.sample(json!({"monitor": mon, "T": T::NAME, "n_chains": n_chains, "dim": dim, "threads": threads, "runs(n_collect,n_discard)": history}));
}

// ---------------------------------------------------------------------------------------------

fn arr_bits<T: Bits>(a: &ndarray::Array3<T>) -> Vec<u64> {
    a.iter().map(|x| x.bits()).collect()
}

#[derive(Clone, Debug)]
pub struct DetCond;
impl Conditional<f64> for DetCond {
    fn sample(&mut self, index: usize, given: &[f64]) -> f64 {
        // deterministic given the state: a contraction mixing all coordinates
        let s: f64 = given.iter().enumerate().map(|(i, x)| x * (1.0 + i as f64 * 0.25)).sum();
        (s * 0.37 + index as f64).sin() * 3.0 + 0.1 * given[index]
    }
}

fn mh_case(ctx: &Ctx, rep: &mut Report, case: u64, g: &mut Sm64) {
    let mon = "real";
    let sig = "MetropolisHastings::run";
    let n_chains = g.range(1, 8);
    let dim = g.range(1, 6);
    let seed = g.next_u64() >> 1;
    let (a, d, b) = (g.range(0, 30), g.range(0, 20), g.range(0, 30));
    let threads = *g.choose(&[1usize, 2, 4, 16]);
    let inits: Vec<Vec<f64>> = (0..n_chains).map(|_| (0..dim).map(|_| g.normal()).collect()).collect();
    let mk = || {
        MetropolisHastings::new(
            IsotropicGaussian::<f64>::new(1.3),
            IsotropicGaussian::<f64>::new(0.8).set_seed(seed ^ 0x55),
            inits.clone(),
        )
        .seed(seed)
    };
    let pool = rayon::ThreadPoolBuilder::new().num_threads(threads).build().unwrap();
    let r = guard(|| {
        let mut s1 = mk();
        let mut s2 = s1.clone();
        let mut s3 = s1.clone();
        let r1a = pool.install(|| s1.run(a, d)).unwrap();
        let r1b = pool.install(|| s1.run(b, 0)).unwrap();
        let r2 = s2.run(a + b, d).unwrap();
        // manual stepping of a third twin
        let mut manual = vec![];
        for ch in s3.chains.iter_mut() {
            let mut rows = vec![];
            for i in 0..(a + b + d) {
                let st = ch.step().clone();
                if i >= d {
                    rows.push(st);
                }
            }
            manual.push(rows);
        }
        let last1: Vec<Vec<f64>> = s1.chains.iter().map(|c| c.current_state.clone()).collect();
        (r1a, r1b, r2, manual, last1)
    });
    rep.evals(3);
    let (r1a, r1b, r2, manual, last1) = match r {
        Ok(x) => x,
        Err(m) => {
            rep.violation(&format!("{sig} panic"), mon, case, json!({"panic": m}));
            return;
        }
    };
    let ctxj = json!({"n_chains": n_chains, "dim": dim, "a": a, "d": d, "b": b, "seed": seed, "threads": threads});
    if r1a.shape() != [n_chains, a, dim] || r1b.shape() != [n_chains, b, dim] || r2.shape() != [n_chains, a + b, dim] {
        rep.violation(&format!("{sig} shape"), mon, case, ctxj);
        return;
    }
    for c in 0..n_chains {
        for k in 0..(a + b) {
            for j in 0..dim {
                let v2 = r2[[c, k, j]];
                let v1 = if k < a { r1a[[c, k, j]] } else { r1b[[c, k - a, j]] };
                if v1.to_bits() != v2.to_bits() {
                    rep.violation(&format!("{sig} two-consecutive-runs-differ-from-one-long-run"), mon, case,
                        json!({"ctx": ctxj, "chain": c, "k": k, "j": j, "split": v1, "long": v2}));
                    return;
                }
                if manual[c][k][j].to_bits() != v2.to_bits() {
                    rep.violation(&format!("{sig} row-k-is-not-state-after-n_discard+k+1-steps"), mon, case,
                        json!({"ctx": ctxj, "chain": c, "k": k, "j": j, "manual": manual[c][k][j], "run": v2}));
                    return;
                }
            }
        }
        if a + b > 0 {
            let lastrow: Vec<f64> = (0..dim).map(|j| r2[[c, a + b - 1, j]]).collect();
            if !bits_eq(&lastrow, &last1[c]) {
                rep.violation(&format!("{sig} sampler-not-left-at-last-returned-state"), mon, case, json!({"ctx": ctxj, "chain": c}));
                return;
            }
        }
    }
    rep.held();
    rep.count("mh_histories");
    rep.distinct(("mh", n_chains, dim, a, d, b));
    rep.sample(json!({"monitor": mon, "sampler": "MH", "ctx": ctxj}));
}

/// A conditional with internal state (as every real Gibbs conditional has: `sample` receives no
/// generator, so it must carry its own): the k-th answer of a chain depends on k.
#[derive(Clone, Debug)]
pub struct StatefulCond {
    pub calls: u64,
    pub salt: u64,
}
impl Conditional<f64> for StatefulCond {
    fn sample(&mut self, index: usize, given: &[f64]) -> f64 {
        self.calls += 1;
        let mut h = Sm64::new(self.salt ^ self.calls.wrapping_mul(0x9e37_79b9_7f4a_7c15));
        let s: f64 = given.iter().sum();
        h.normal() + 0.3 * (s + index as f64).sin()
    }
}

fn gibbs_stateful_case(_ctx: &Ctx, rep: &mut Report, case: u64, g: &mut Sm64) {
    let mon = "real";
    let sig = "GibbsSampler::run (conditional with internal state)";
    let n_chains = g.range(1, 8);
    let dim = g.range(1, 6);
    let n_runs = g.range(1, 4);
    let lens: Vec<(usize, usize)> = (0..n_runs).map(|i| (g.range(0, 20), if i == 0 || g.chance(0.3) { g.range(0, 10) } else { 0 })).collect();
    let inits: Vec<Vec<f64>> = (0..n_chains).map(|_| (0..dim).map(|_| g.normal()).collect()).collect();
    let cond = StatefulCond { calls: 0, salt: g.next_u64() };
    let progress = g.chance(0.3) && lens.iter().all(|l| l.0 >= 4);
    let r = guard(|| {
        let mut s = GibbsSampler::new(cond.clone(), inits.clone());
        let mut outs = vec![];
        for (a, d) in &lens {
            outs.push(if progress { s.run_progress(*a, *d).unwrap().0 } else { s.run(*a, *d).unwrap() });
        }
        let finals: Vec<Vec<f64>> = s.chains.iter().map(|c| c.current_state.clone()).collect();
        (outs, finals)
    });
    rep.evals(n_runs as u64);
    let (outs, finals) = match r {
        Ok(x) => x,
        Err(m) => {
            rep.violation(&format!("{sig} panic"), mon, case, json!({"panic": m}));
            return;
        }
    };
    let ctxj = json!({"n_chains": n_chains, "dim": dim, "runs(n_collect,n_discard)": lens, "run_progress": progress});
    for c in 0..n_chains {
        // by hand: the chain's own copy of the conditional lives on across run calls
        let mut st = inits[c].clone();
        let mut cd = cond.clone();
        for (ri, (a, d)) in lens.iter().enumerate() {
            if outs[ri].shape() != [n_chains, *a, dim] {
                rep.violation(&format!("{sig} shape"), mon, case, json!({"ctx": ctxj, "run": ri, "shape": outs[ri].shape()}));
                return;
            }
            for i in 0..(a + d) {
                for j in 0..dim {
                    st[j] = cd.sample(j, &st);
                }
                if i >= *d {
                    for j in 0..dim {
                        let v = outs[ri][[c, i - d, j]];
                        if v.to_bits() != st[j].to_bits() {
                            rep.violation(&format!("{sig} run-{}-does-not-continue-the-chain-as-the-previous-run-left-it", if ri == 0 { "first" } else { "later" }), mon, case,
                                json!({"ctx": ctxj, "run": ri, "chain": c, "k": i - d, "j": j, "returned": v, "by_hand": st[j]}));
                            return;
                        }
                    }
                }
            }
        }
        if finals[c].iter().zip(&st).any(|(x, y)| x.to_bits() != y.to_bits()) {
            rep.violation(&format!("{sig} sampler-not-left-at-last-state"), mon, case, json!({"ctx": ctxj, "chain": c}));
            return;
        }
    }
    rep.held();
    rep.count("gibbs_histories_stateful_conditional");
    rep.distinct(("gibbs-stateful", n_chains, dim, lens.clone(), progress));
}

fn gibbs_case(_ctx: &Ctx, rep: &mut Report, case: u64, g: &mut Sm64) {
    let mon = "real";
    let sig = "GibbsSampler::run";
    let n_chains = g.range(1, 8);
    let dim = g.range(1, 6);
    let (a, d, b) = (g.range(0, 30), g.range(0, 20), g.range(0, 30));
    let inits: Vec<Vec<f64>> = (0..n_chains).map(|_| (0..dim).map(|_| g.normal()).collect()).collect();
    let r = guard(|| {
        let mut s1 = GibbsSampler::new(DetCond, inits.clone());
        let mut s2 = GibbsSampler::new(DetCond, inits.clone());
        let r1a = s1.run(a, d).unwrap();
        let r1b = s1.run(b, 0).unwrap();
        let r2 = s2.run(a + b, d).unwrap();
        (r1a, r1b, r2)
    });
    rep.evals(3);
    let (r1a, r1b, r2) = match r {
        Ok(x) => x,
        Err(m) => {
            rep.violation(&format!("{sig} panic"), mon, case, json!({"panic": m}));
            return;
        }
    };
    let ctxj = json!({"n_chains": n_chains, "dim": dim, "a": a, "d": d, "b": b});
    if r2.shape() != [n_chains, a + b, dim] || r1a.shape() != [n_chains, a, dim] {
        rep.violation(&format!("{sig} shape"), mon, case, ctxj);
        return;
    }
    // reference: sweep by hand
    for c in 0..n_chains {
        let mut st = inits[c].clone();
        let mut cond = DetCond;
        for i in 0..(a + b + d) {
            for j in 0..dim {
                st[j] = cond.sample(j, &st);
            }
            if i >= d {
                let k = i - d;
                for j in 0..dim {
                    let v2 = r2[[c, k, j]];
                    let v1 = if k < a { r1a[[c, k, j]] } else { r1b[[c, k - a, j]] };
                    if v1.to_bits() != v2.to_bits() || v2.to_bits() != st[j].to_bits() {
                        rep.violation(&format!("{sig} row-or-continuation"), mon, case,
                            json!({"ctx": ctxj, "chain": c, "k": k, "j": j, "split": v1, "long": v2, "by_hand": st[j]}));
                        return;
                    }
                }
            }
        }
    }
    rep.held();
    rep.count("gibbs_histories");
    rep.distinct(("gibbs", n_chains, dim, a, d, b));
}

type B64 = Autodiff<NdArray<f64>>;
type B32 = Autodiff<NdArray<f32>>;

fn tensor3_bits<B: burn::tensor::backend::Backend>(t: &Tensor<B, 3>) -> (Vec<usize>, Vec<u64>) {
    let dims = t.dims().to_vec();
    let v: Vec<f64> = t.to_data().iter::<f64>().collect();
    (dims, v.iter().map(|x| x.to_bits()).collect())
}

fn hmc_case<T, B>(_ctx: &Ctx, rep: &mut Report, case: u64, g: &mut Sm64, bname: &str)
where
    T: crate::props::c02::Scalar,
    B: burn::tensor::backend::AutodiffBackend,
    rand_distr::StandardNormal: rand_distr::Distribution<T>,
    rand_distr::StandardUniform: rand_distr::Distribution<T>,
{
    let mon = "real";
    let sig = &format!("HMC::run T={} backend={bname}", T::NAME);
    let n_chains = g.range(1, 6);
    let dim = g.range(1, 5);
    let seed = g.next_u64();
    // mostly short histories; one in five long enough to cross internal block sizes (64, 128, 256 rows)
    let (a, d, b) = if g.chance(0.2) { (g.range(60, 300), g.range(0, 70), g.range(0, 80)) } else { (g.range(0, 12), g.range(0, 8), g.range(0, 12)) };
    let l = if a > 20 { 1 } else { g.range(1, 6) };
    let eps = g.uniform(0.05, 0.4);
    // values that are not representable in the narrower of the two float types involved
    let mut inits: Vec<Vec<T>> = (0..n_chains).map(|_| (0..dim).map(|_| T::of(g.normal())).collect()).collect();
    // one chain of a batch may be beyond repair (a NaN coordinate: it can never move); the others
    // still get their n_discard + n_collect transitions
    if n_chains >= 2 && g.chance(0.12) {
        let c = g.below(n_chains);
        let j = g.below(dim);
        inits[c][j] = T::of(f64::NAN);
        rep.count("hmc_histories_with_one_chain_started_at_NaN");
    }
    let target = DiagGauss::new((0..dim).map(|i| 0.5 + i as f64 * 0.3).collect(), vec![0.0; dim]);
    // the progress-reporting entry point makes the same promise; C10 states it for n_collect >= 4
    // (with a single kept draw the diagnostics at the end of run_progress panic: outside every
    // listed property, recorded in DESIGN.md as an observation)
    let progress = a >= 4 && g.chance(0.4);
    let ctxj = json!({"T": T::NAME, "backend": bname, "first_runs_via_run_progress": progress, "n_chains": n_chains, "dim": dim, "a": a, "d": d, "b": b, "seed": seed, "L": l, "eps": eps});
    let r = guard(|| {
        let mk = || HMC::<T, B, DiagGauss>::new(target.clone(), inits.clone(), T::of(eps), l).set_seed(seed);
        let mut s1 = mk();
        let mut s2 = mk();
        let mut s3 = mk();
        hook::enable();
        let r1a = tensor3_bits(&if progress { s1.run_progress(a, d).unwrap().0 } else { s1.run(a, d) });
        let ev_a = hook::take().len();
        let r1b = tensor3_bits(&if progress && b >= 4 { s1.run_progress(b, 0).unwrap().0 } else { s1.run(b, 0) });
        let ev_b = hook::take().len();
        hook::disable();
        let r2 = tensor3_bits(&s2.run(a + b, d));
        let mut manual: Vec<Vec<u64>> = vec![];
        for i in 0..(a + b + d) {
            s3.step();
            if i >= d {
                let v: Vec<f64> = s3.positions.to_data().iter::<f64>().collect();
                manual.push(v.iter().map(|x| x.to_bits()).collect());
            }
        }
        let last: Vec<f64> = s1.positions.to_data().iter::<f64>().collect();
        (r1a, r1b, r2, manual, ev_a, ev_b, last)
    });
    rep.evals(3);
    let (r1a, r1b, r2, manual, ev_a, ev_b, last) = match r {
        Ok(x) => x,
        Err(m) => {
            rep.violation(&format!("{sig} panic"), mon, case, json!({"panic": m, "ctx": ctxj}));
            return;
        }
    };
    if r1a.0 != [n_chains, a, dim] || r1b.0 != [n_chains, b, dim] || r2.0 != [n_chains, a + b, dim] {
        rep.violation(&format!("{sig} shape"), mon, case, json!({"ctx": ctxj, "shapes": [r1a.0, r1b.0, r2.0]}));
        return;
    }
    if ev_a != a + d || ev_b != b {
        rep.violation(&format!("{sig} number-of-transitions"), mon, case,
            json!({"ctx": ctxj, "steps_in_first_run": ev_a, "steps_in_second_run": ev_b}));
        return;
    }
    for c in 0..n_chains {
        for k in 0..(a + b) {
            for j in 0..dim {
                let v2 = r2.1[(c * (a + b) + k) * dim + j];
                let v1 = if k < a { r1a.1[(c * a + k) * dim + j] } else { r1b.1[(c * b + (k - a)) * dim + j] };
                let vm = manual[k][c * dim + j];
                if v1 != v2 {
                    rep.violation(&format!("{sig} two-consecutive-runs-differ-from-one-long-run"), mon, case,
                        json!({"ctx": ctxj, "chain": c, "k": k, "j": j, "split": f64::from_bits(v1), "long": f64::from_bits(v2)}));
                    return;
                }
                if vm != v2 {
                    rep.violation(&format!("{sig} row-k-is-not-state-after-n_discard+k+1-steps"), mon, case,
                        json!({"ctx": ctxj, "chain": c, "k": k, "j": j, "manual": f64::from_bits(vm), "run": f64::from_bits(v2)}));
                    return;
                }
            }
        }
    }
    if a + b > 0 {
        for c in 0..n_chains {
            for j in 0..dim {
                if last[c * dim + j].to_bits() != r2.1[(c * (a + b) + (a + b - 1)) * dim + j] {
                    rep.violation(&format!("{sig} sampler-not-left-at-last-returned-state"), mon, case, json!({"ctx": ctxj, "chain": c}));
                    return;
                }
            }
        }
    }
    rep.held();
    rep.count("hmc_histories");
    rep.count(&format!("hmc_histories[T={} backend={bname}]", T::NAME));
    if progress {
        rep.count("hmc_histories_via_run_progress");
    }
    rep.distinct(("hmc", T::NAME, bname.to_string(), n_chains, dim, a, d, b, l));
    rep.sample(json!({"monitor": mon, "sampler": "HMC", "ctx": ctxj}));
}

/// The progress-reporting entry point leaves the sampler where its draws ended, like `run`: twins
/// A (run_progress(a, d)) and B (run(a + 1, d): the same a + d transitions) must answer a
/// following run identically.
fn nuts_progress_then_run_case(rep: &mut Report, case: u64, g: &mut Sm64) {
    let mon = "real";
    let sig = "NUTS::run_progress followed by run";
    let n_chains = g.range(2, 4);
    let dim = g.range(1, 3);
    let seed = g.next_u64() >> 2;
    // (no warm-ups of a handful of transitions: their wild early step sizes make trajectories of
    // millions of steps, which is the sampler's business, not this check's)
    let (a, d) = (g.range(4, 8), if g.bool() { 0 } else { g.range(20, 30) });
    let (b, d2) = (g.range(1, 6), 0usize);
    let inits: Vec<Vec<f64>> = (0..n_chains).map(|_| (0..dim).map(|_| g.normal() * 0.2).collect()).collect();
    // (a narrow target: a sampler that lost its adapted step size shows at once)
    let target = DiagGauss::new((0..dim).map(|i| 300.0 + i as f64 * 100.0).collect(), vec![0.0; dim]);
    let delta = g.uniform(0.6, 0.9);
    let ctxj = json!({"n_chains": n_chains, "dim": dim, "first": [a, d], "second": [b, d2], "seed": seed, "delta": delta});
    let r = guard(|| {
        let mut sa = NUTS::<f64, B64, DiagGauss>::new(target.clone(), inits.clone(), delta).set_seed(seed);
        let mut sb = NUTS::<f64, B64, DiagGauss>::new(target.clone(), inits.clone(), delta).set_seed(seed);
        reset_budget(1 << 17);
        let pa = tensor3_bits(&sa.run_progress(a, d).unwrap().0);
        reset_budget(1 << 17);
        let pb = tensor3_bits(&sb.run(a + 1, d));
        reset_budget(1 << 17);
        let qa = tensor3_bits(&sa.run(b, d2));
        let qb = tensor3_bits(&sb.run(b, d2));
        reset_budget(u64::MAX);
        (pa, pb, qa, qb)
    });
    rep.evals(4);
    match r {
        Err(m) => {
            reset_budget(u64::MAX);
            if m.contains(BUDGET_MSG) {
                rep.inconclusive("target-evaluation budget exhausted in the second run: trajectories too long to monitor");
            } else {
                rep.violation(&format!("{sig} panic"), mon, case, json!({"panic": m, "ctx": ctxj}));
            }
        }
        Ok((pa, pb, qa, qb)) => {
            let shifted_ok = pa.0 == [n_chains, a, dim] && (0..n_chains).all(|c| (0..a).all(|k| (0..dim).all(|j| pa.1[(c * a + k) * dim + j] == pb.1[(c * (a + 1) + k + 1) * dim + j])));
            if !shifted_ok {
                rep.violation(&format!("{sig}: run_progress draws are not run's shifted by one"), mon, case, json!({"ctx": ctxj}));
                return;
            }
            if qa != qb {
                rep.violation(&format!("{sig}: the following run differs from the one after an equivalent run (sampler not left where its draws ended)"), mon, case, json!({"ctx": ctxj}));
                return;
            }
            rep.held();
            rep.count("nuts_run_progress_then_run_histories");
            rep.distinct(("nuts-progress", n_chains, dim, a, d, b, d2));
        }
    }
}

fn nuts_case(_ctx: &Ctx, rep: &mut Report, case: u64, g: &mut Sm64) {
    let mon = "real";
    let sig = "NUTS::run";
    let n_chains = g.range(1, 4);
    let dim = g.range(1, 4);
    let seed = g.next_u64() >> 2;
    // (a third of the histories start with the smallest possible request: one kept draw, no warm-up)
    let (n_collect, n_discard) = if g.chance(0.33) { (1, 0) } else { (g.range(1, 10), g.range(0, 8)) };
    let inits: Vec<Vec<f64>> = (0..n_chains).map(|_| (0..dim).map(|_| g.normal()).collect()).collect();
    let target = DiagGauss::new((0..dim).map(|i| 0.7 + i as f64 * 0.4).collect(), vec![0.0; dim]);
    let delta = g.uniform(0.5, 0.99);
    let (n_collect2, n_discard2) = (g.range(1, 6), g.range(0, 12));
    let ctxj = json!({"n_chains": n_chains, "dim": dim, "n_collect": n_collect, "n_discard": n_discard, "second_run": [n_collect2, n_discard2], "seed": seed, "delta": delta});
    let r = guard(|| {
        let mut multi = NUTS::<f64, B64, DiagGauss>::new(target.clone(), inits.clone(), delta).set_seed(seed);
        let out = tensor3_bits(&multi.run(n_collect, n_discard));
        // per-chain twins, traced
        let mut per_chain = vec![];
        for (i, init) in inits.iter().enumerate() {
            let mut ch = NUTSChain::<f64, B64, DiagGauss>::new(target.clone(), init.clone(), delta)
                .set_seed(seed.wrapping_add(i as u64 + 1));
            hook::enable();
            let t = ch.run(n_collect, n_discard);
            let events = hook::take();
            hook::disable();
            let rows: Vec<f64> = t.to_data().iter::<f64>().collect();
            let dims = t.dims().to_vec();
            let m = ch.verif_adapt_state().0;
            let pos: Vec<f64> = ch.position.to_data().iter::<f64>().collect();
            // a second run on the same chain: it starts at the last state and performs its own
            // n_collect2 + n_discard2 - 1 transitions, whatever the chain has done before
            hook::enable();
            reset_budget(1 << 16);
            let t2 = ch.run(n_collect2, n_discard2);
            reset_budget(u64::MAX);
            let events2 = hook::take();
            hook::disable();
            let rows2: Vec<f64> = t2.to_data().iter::<f64>().collect();
            per_chain.push((dims, rows, events, m, pos, rows2, events2, ch.verif_adapt_state().0));
        }
        // the runner's second run must again equal what its chains do individually. (It runs on
        // worker threads, which the evaluation budget of this thread does not reach; the identically
        // seeded twins above have just shown that this very work fits into the budget.)
        let out2 = tensor3_bits(&multi.run(n_collect2, n_discard2));
        (out, out2, per_chain)
    });
    rep.evals(1 + n_chains as u64);
    let (out, out2, per_chain) = match r {
        Ok(x) => x,
        Err(m) => {
            reset_budget(u64::MAX);
            hook::disable();
            if m.contains(BUDGET_MSG) {
                // resumed adaptation after a very short first warm-up can collapse the step size (DESIGN section 7)
                rep.inconclusive("target-evaluation budget (2^16) exhausted in the second run: trajectories too long to monitor");
            } else {
                rep.violation(&format!("{sig} panic"), mon, case, json!({"panic": m, "ctx": ctxj}));
            }
            return;
        }
    };
    if out.0 != [n_chains, n_collect, dim] {
        rep.violation(&format!("{sig} shape"), mon, case, json!({"ctx": ctxj, "shape": out.0}));
        return;
    }
    for (c, (dims, rows, events, m, pos, rows2, events2, m2)) in per_chain.iter().enumerate() {
        if dims != &[n_collect, dim] {
            rep.violation("NUTSChain::run shape", mon, case, json!({"ctx": ctxj, "shape": dims}));
            return;
        }
        // multi-chain runner == individual chains
        for k in 0..n_collect {
            for j in 0..dim {
                if out.1[(c * n_collect + k) * dim + j] != rows[k * dim + j].to_bits() {
                    rep.violation(&format!("{sig} differs-from-individually-run-chain"), mon, case,
                        json!({"ctx": ctxj, "chain": c, "k": k, "j": j}));
                    return;
                }
            }
        }
        for k in 0..n_collect2 {
            for j in 0..dim {
                if out2.0 != [n_chains, n_collect2, dim] || out2.1[(c * n_collect2 + k) * dim + j] != rows2[k * dim + j].to_bits() {
                    rep.violation(&format!("{sig} second-run-differs-from-individually-run-chain"), mon, case,
                        json!({"ctx": ctxj, "chain": c, "k": k, "j": j}));
                    return;
                }
            }
        }
        // transitions performed and row k = state after n_discard + k transitions
        let ends: Vec<&Vec<f64>> = events
            .iter()
            .filter_map(|e| if let hook::Event::NutsEnd { position, .. } = e { Some(position) } else { None })
            .collect();
        let expected_transitions = n_collect + n_discard - 1;
        if ends.len() != expected_transitions || *m != expected_transitions {
            rep.violation("NUTSChain::run number-of-transitions", mon, case,
                json!({"ctx": ctxj, "chain": c, "transitions_traced": ends.len(), "m": m, "expected": expected_transitions}));
            return;
        }
        for k in 0..n_collect {
            let t = n_discard + k; // state after t transitions
            let exp: Vec<f64> = if t == 0 { inits[c].clone() } else { ends[t - 1].clone() };
            let row = &rows[k * dim..(k + 1) * dim];
            if !bits_eq(row, &exp) {
                rep.violation("NUTSChain::run row-k-is-not-state-after-n_discard+k-transitions", mon, case,
                    json!({"ctx": ctxj, "chain": c, "k": k, "row": row, "expected": exp}));
                return;
            }
        }
        let lastrow = &rows[(n_collect - 1) * dim..];
        if !bits_eq(lastrow, pos) {
            rep.violation("NUTSChain::run sampler-not-left-at-last-returned-state", mon, case, json!({"ctx": ctxj, "chain": c}));
            return;
        }
        // second run on the same chain
        let ends2: Vec<&Vec<f64>> = events2
            .iter()
            .filter_map(|e| if let hook::Event::NutsEnd { position, .. } = e { Some(position) } else { None })
            .collect();
        let expected2 = n_collect2 + n_discard2 - 1;
        if ends2.len() != expected2 || *m2 != expected_transitions + expected2 {
            rep.violation("NUTSChain::run number-of-transitions (second run on the same chain)", mon, case,
                json!({"ctx": ctxj, "chain": c, "transitions_traced": ends2.len(), "m": m2, "expected": expected2}));
            return;
        }
        for k in 0..n_collect2 {
            let t = n_discard2 + k;
            let exp: Vec<f64> = if t == 0 { pos.clone() } else { ends2[t - 1].clone() };
            let row = &rows2[k * dim..(k + 1) * dim];
            if !bits_eq(row, &exp) {
                rep.violation("NUTSChain::run row-k-is-not-state-after-n_discard+k-transitions (second run on the same chain)", mon, case,
                    json!({"ctx": ctxj, "chain": c, "k": k, "row": row, "expected": exp}));
                return;
            }
        }
    }
    rep.held();
    rep.count("nuts_histories");
    rep.distinct(("nuts", n_chains, dim, n_collect, n_discard));
    rep.sample(json!({"monitor": mon, "sampler": "NUTS", "ctx": ctxj}));
}

pub fn run(ctx: &Ctx, rep: &mut Report) {
    for c in ctx.case_ids("counting", 1500, 150_000) {
        let mut g = ctx.rng("counting", c);
        match c % 3 {
            0 => counting_case::<f64>(ctx, rep, c, &mut g),
            1 => counting_case::<i32>(ctx, rep, c, &mut g),
            _ => counting_case::<f32>(ctx, rep, c, &mut g),
        }
    }
    for c in ctx.case_ids("real", 160, 8000) {
        let mut g = ctx.rng("real", c);
        match c % 8 {
            0 | 1 | 2 => mh_case(ctx, rep, c, &mut g),
            3 => gibbs_case(ctx, rep, c, &mut g),
            4 => gibbs_stateful_case(ctx, rep, c, &mut g),
            5 | 6 => match (c / 8) % 4 {
                // scalar type and backend float type are independent parameters of the sampler
                0 => hmc_case::<f64, B64>(ctx, rep, c, &mut g, "ndarray-f64"),
                1 => hmc_case::<f32, B32>(ctx, rep, c, &mut g, "ndarray-f32"),
                2 => hmc_case::<f32, B64>(ctx, rep, c, &mut g, "ndarray-f64"),
                _ => hmc_case::<f64, B32>(ctx, rep, c, &mut g, "ndarray-f32"),
            },
            _ => nuts_case(ctx, rep, c, &mut g),
        }
    }
    for c in ctx.case_ids("progress", 8, 400) {
        let mut g = ctx.rng("progress", c);
        nuts_progress_then_run_case(rep, c, &mut g);
    }
    let _ = std::marker::PhantomData::<B32>;
}
