//! Crafted `SmallRng` states: rand 0.9's SmallRng on 64-bit targets is xoshiro256++ and
//! `from_seed` loads the four state words verbatim, so a state can be built whose *next* 64-bit
//! output is any chosen value R: out = rotl(s0 + s3, 23) + s0  =>  s3 = rotr(R - s0, 23) - s0.
//!
//! Nothing decided by an oracle depends on this being right: the value a crafted generator
//! actually delivers is always read back from a clone (`peek_*`). Crafting only provides *reach*
//! (u == 0, u == 1-ulp, values next to a decision boundary).

use rand::rngs::SmallRng;
use rand::{Rng, SeedableRng};

pub fn with_next_u64(r: u64, salt: u64) -> SmallRng {
    let s0: u64 = 0x9E37_79B9_7F4A_7C15 ^ salt.wrapping_mul(0xD134_2543_DE82_EF95) | 1;
    let s1: u64 = 0xBF58_476D_1CE4_E5B9 ^ salt.rotate_left(17);
    let s2: u64 = 0x94D0_49BB_1331_11EB ^ salt.rotate_left(41);
    let s3: u64 = r.wrapping_sub(s0).rotate_right(23).wrapping_sub(s0);
    let mut seed = [0u8; 32];
    seed[0..8].copy_from_slice(&s0.to_le_bytes());
    seed[8..16].copy_from_slice(&s1.to_le_bytes());
    seed[16..24].copy_from_slice(&s2.to_le_bytes());
    seed[24..32].copy_from_slice(&s3.to_le_bytes());
    SmallRng::from_seed(seed)
}

/// Generator whose next `random::<f64>()` should be k * 2^-53 (k < 2^53).
pub fn f64_with_k(k: u64, salt: u64) -> SmallRng {
    with_next_u64(k << 11 | (salt & 0x7FF), salt)
}

/// Generator whose next `random::<f32>()` should be k * 2^-24 (k < 2^24).
pub fn f32_with_k(k: u64, salt: u64) -> SmallRng {
    with_next_u64(k << 40 | (salt & 0xFF_FFFF_FFFF), salt)
}

pub fn peek_f64(rng: &SmallRng) -> f64 {
    rng.clone().random::<f64>()
}
pub fn peek_f32(rng: &SmallRng) -> f32 {
    rng.clone().random::<f32>()
}

/// Float types the library's samplers are instantiated with.
pub trait CraftFloat: Copy {
    /// number of mantissa steps in [0,1): 2^53 or 2^24
    const STEPS: u64;
    fn craft(k: u64, salt: u64) -> SmallRng;
    fn peek(rng: &SmallRng) -> Self;
}
impl CraftFloat for f64 {
    const STEPS: u64 = 1 << 53;
    fn craft(k: u64, salt: u64) -> SmallRng {
        f64_with_k(k, salt)
    }
    fn peek(rng: &SmallRng) -> f64 {
        peek_f64(rng)
    }
}
impl CraftFloat for f32 {
    const STEPS: u64 = 1 << 24;
    fn craft(k: u64, salt: u64) -> SmallRng {
        f32_with_k(k, salt)
    }
    fn peek(rng: &SmallRng) -> f32 {
        peek_f32(rng)
    }
}
