//! Target families, each defined twice: as burn-tensor code (what the library differentiates) and
//! as closed-form f64 value + gradient (what the oracles use). `selfcheck` compares the two and the
//! closed-form gradient against central differences, so the harness's own formulas are guarded.

use burn::prelude::*;
use burn::tensor::backend::AutodiffBackend;
use burn::tensor::Element;
use mini_mcmc::distributions::{BatchedGradientTarget, GradientTarget};
use num_traits::Float;
use std::cell::Cell;

thread_local! {
    /// number of target evaluations on this thread since the last reset (logical-step budget)
    pub static EVALS: Cell<u64> = const { Cell::new(0) };
    pub static BUDGET: Cell<u64> = const { Cell::new(u64::MAX) };
}
pub const BUDGET_MSG: &str = "verif: target-evaluation budget exhausted";
pub fn reset_budget(b: u64) {
    EVALS.with(|e| e.set(0));
    BUDGET.with(|x| x.set(b));
}
pub fn evals() -> u64 {
    EVALS.with(|e| e.get())
}
pub fn tick() {
    let n = EVALS.with(|e| {
        e.set(e.get() + 1);
        e.get()
    });
    if n > BUDGET.with(|b| b.get()) {
        BUDGET.with(|b| b.set(u64::MAX));
        panic!("{}", BUDGET_MSG);
    }
}

/// Closed-form side of a target.
pub trait RefTarget: Clone + Send + Sync {
    fn dim(&self) -> usize;
    fn logp(&self, x: &[f64]) -> f64;
    fn grad(&self, x: &[f64]) -> Vec<f64>;
    fn name(&self) -> String;
}

fn t1<B: Backend>(v: &[f64]) -> Tensor<B, 1> {
    Tensor::<B, 1>::from_data(TensorData::new(v.to_vec(), [v.len()]), &B::Device::default())
}
fn t2<B: Backend>(v: &[f64], r: usize, c: usize) -> Tensor<B, 2> {
    Tensor::<B, 2>::from_data(TensorData::new(v.to_vec(), [r, c]), &B::Device::default())
}

/// Evaluate a batched target row-wise through the single-point closure `f` on [1, d] slices.
macro_rules! impl_both {
    ($ty:ty, $batch:expr) => {
        impl<T, B> BatchedGradientTarget<T, B> for $ty
        where
            T: Float + Element,
            B: AutodiffBackend,
        {
            fn unnorm_logp_batch(&self, positions: Tensor<B, 2>) -> Tensor<B, 1> {
                tick();
                #[allow(clippy::redundant_closure_call)]
                $batch(self, positions)
            }
        }
        impl<T, B> GradientTarget<T, B> for $ty
        where
            T: Float + Element,
            B: AutodiffBackend,
        {
            fn unnorm_logp(&self, position: Tensor<B, 1>) -> Tensor<B, 1> {
                tick();
                let d = position.dims()[0];
                #[allow(clippy::redundant_closure_call)]
                $batch(self, position.reshape([1, d]))
            }
        }
    };
}

// ---------------------------------------------------------------------------------------------
/// Gaussian with diagonal precision.
#[derive(Clone, Debug)]
pub struct DiagGauss {
    pub prec: Vec<f64>,
    pub mean: Vec<f64>,
}
impl DiagGauss {
    pub fn new(prec: Vec<f64>, mean: Vec<f64>) -> Self {
        DiagGauss { prec, mean }
    }
}
impl RefTarget for DiagGauss {
    fn dim(&self) -> usize {
        self.prec.len()
    }
    fn logp(&self, x: &[f64]) -> f64 {
        -0.5 * x.iter().zip(&self.prec).zip(&self.mean).map(|((x, p), m)| p * (x - m) * (x - m)).sum::<f64>()
    }
    fn grad(&self, x: &[f64]) -> Vec<f64> {
        x.iter().zip(&self.prec).zip(&self.mean).map(|((x, p), m)| -p * (x - m)).collect()
    }
    fn name(&self) -> String {
        format!("DiagGauss(d={})", self.prec.len())
    }
}
fn diag_batch<B: AutodiffBackend>(s: &DiagGauss, x: Tensor<B, 2>) -> Tensor<B, 1> {
    let d = s.prec.len();
    let delta = x - t2::<B>(&s.mean, 1, d);
    let q = delta.clone() * delta * t2::<B>(&s.prec, 1, d);
    q.sum_dim(1).squeeze::<1>(1).mul_scalar(-0.5)
}
impl_both!(DiagGauss, diag_batch);

// ---------------------------------------------------------------------------------------------
/// Gaussian with a dense SPD precision matrix (element-wise tensor code, no matmul).
#[derive(Clone, Debug)]
pub struct DenseGauss {
    pub d: usize,
    pub prec: Vec<f64>, // row-major d x d, symmetric
    pub mean: Vec<f64>,
    pub cov: Vec<f64>, // row-major, for the moments oracle
}
impl DenseGauss {
    /// Random SPD precision with condition number <= cond.
    pub fn random(g: &mut crate::util::Sm64, d: usize, cond: f64) -> Self {
        // Q from Gram-Schmidt of a random matrix, eigenvalues log-uniform in [1/sqrt(cond), sqrt(cond)]
        let mut q: Vec<Vec<f64>> = vec![];
        while q.len() < d {
            let mut v: Vec<f64> = (0..d).map(|_| g.normal()).collect();
            for u in &q {
                let dot: f64 = v.iter().zip(u).map(|(a, b)| a * b).sum();
                for (a, b) in v.iter_mut().zip(u) {
                    *a -= dot * b;
                }
            }
            let n: f64 = v.iter().map(|a| a * a).sum::<f64>().sqrt();
            if n > 1e-6 {
                q.push(v.iter().map(|a| a / n).collect());
            }
        }
        let s = cond.sqrt();
        let ev: Vec<f64> = (0..d).map(|_| g.log_uniform(1.0 / s, s)).collect();
        let mut prec = vec![0.0; d * d];
        let mut cov = vec![0.0; d * d];
        for i in 0..d {
            for j in 0..d {
                let mut p = 0.0;
                let mut c = 0.0;
                for k in 0..d {
                    p += q[k][i] * ev[k] * q[k][j];
                    c += q[k][i] / ev[k] * q[k][j];
                }
                prec[i * d + j] = p;
                cov[i * d + j] = c;
            }
        }
        // exact symmetry
        for i in 0..d {
            for j in 0..i {
                prec[i * d + j] = prec[j * d + i];
                cov[i * d + j] = cov[j * d + i];
            }
        }
        let mean = (0..d).map(|_| g.uniform(-2.0, 2.0)).collect();
        DenseGauss { d, prec, mean, cov }
    }
    /// lower Cholesky factor of the covariance (to draw exact samples)
    pub fn chol_cov(&self) -> Vec<f64> {
        let d = self.d;
        let mut l = vec![0.0; d * d];
        for i in 0..d {
            for j in 0..=i {
                let mut s = self.cov[i * d + j];
                for k in 0..j {
                    s -= l[i * d + k] * l[j * d + k];
                }
                l[i * d + j] = if i == j { s.sqrt() } else { s / l[j * d + j] };
            }
        }
        l
    }
    pub fn draw(&self, g: &mut crate::util::Sm64) -> Vec<f64> {
        let d = self.d;
        let l = self.chol_cov();
        let z: Vec<f64> = (0..d).map(|_| g.normal()).collect();
        (0..d).map(|i| self.mean[i] + (0..=i).map(|k| l[i * d + k] * z[k]).sum::<f64>()).collect()
    }
}
impl RefTarget for DenseGauss {
    fn dim(&self) -> usize {
        self.d
    }
    fn logp(&self, x: &[f64]) -> f64 {
        let d = self.d;
        let mut q = 0.0;
        for i in 0..d {
            for j in 0..d {
                q += (x[i] - self.mean[i]) * self.prec[i * d + j] * (x[j] - self.mean[j]);
            }
        }
        -0.5 * q
    }
    fn grad(&self, x: &[f64]) -> Vec<f64> {
        let d = self.d;
        (0..d).map(|i| -(0..d).map(|j| self.prec[i * d + j] * (x[j] - self.mean[j])).sum::<f64>()).collect()
    }
    fn name(&self) -> String {
        format!("DenseGauss(d={})", self.d)
    }
}
fn dense_batch<B: AutodiffBackend>(s: &DenseGauss, x: Tensor<B, 2>) -> Tensor<B, 1> {
    let d = s.d;
    let n = x.dims()[0];
    let delta = x - t2::<B>(&s.mean, 1, d);
    let p: Tensor<B, 3> = t2::<B>(&s.prec, d, d).reshape([1, d, d]);
    let z: Tensor<B, 2> = (delta.clone().reshape([n, d, 1]) * p).sum_dim(1).reshape([n, d]);
    (z * delta).sum_dim(1).squeeze::<1>(1).mul_scalar(-0.5)
}
impl_both!(DenseGauss, dense_batch);

// ---------------------------------------------------------------------------------------------
/// Multivariate Student-t (heavy tails): logp = -(nu+d)/2 ln(1 + |x|^2/nu)
#[derive(Clone, Debug)]
pub struct StudentT {
    pub d: usize,
    pub nu: f64,
}
impl RefTarget for StudentT {
    fn dim(&self) -> usize {
        self.d
    }
    fn logp(&self, x: &[f64]) -> f64 {
        let r2: f64 = x.iter().map(|a| a * a).sum();
        -(self.nu + self.d as f64) / 2.0 * (1.0 + r2 / self.nu).ln()
    }
    fn grad(&self, x: &[f64]) -> Vec<f64> {
        let r2: f64 = x.iter().map(|a| a * a).sum();
        x.iter().map(|a| -(self.nu + self.d as f64) * a / (self.nu + r2)).collect()
    }
    fn name(&self) -> String {
        format!("StudentT(d={},nu={})", self.d, self.nu)
    }
}
fn student_batch<B: AutodiffBackend>(s: &StudentT, x: Tensor<B, 2>) -> Tensor<B, 1> {
    let r2 = (x.clone() * x).sum_dim(1).squeeze::<1>(1);
    // (not div_scalar: burn-autodiff evaluates its backward pass with an f32 reciprocal)
    r2.mul_scalar(1.0 / s.nu).add_scalar(1.0).log().mul_scalar(-(s.nu + s.d as f64) / 2.0)
}
impl_both!(StudentT, student_batch);

// ---------------------------------------------------------------------------------------------
/// "User-defined" quartic well: logp = -sum(x^4/4 + x^2/2); leapfrog diverges for large steps.
#[derive(Clone, Debug)]
pub struct Quartic {
    pub d: usize,
}
impl RefTarget for Quartic {
    fn dim(&self) -> usize {
        self.d
    }
    fn logp(&self, x: &[f64]) -> f64 {
        -x.iter().map(|a| a.powi(4) / 4.0 + a * a / 2.0).sum::<f64>()
    }
    fn grad(&self, x: &[f64]) -> Vec<f64> {
        x.iter().map(|a| -a.powi(3) - a).collect()
    }
    fn name(&self) -> String {
        format!("Quartic(d={})", self.d)
    }
}
fn quartic_batch<B: AutodiffBackend>(_s: &Quartic, x: Tensor<B, 2>) -> Tensor<B, 1> {
    let x2 = x.clone() * x;
    let q = x2.clone() * x2.clone().mul_scalar(0.25) + x2.mul_scalar(0.5);
    -q.sum_dim(1).squeeze::<1>(1)
}
impl_both!(Quartic, quartic_batch);

// ---------------------------------------------------------------------------------------------
/// Funnel-like target: v = x0 ~ N(0, s^2), x_i | v ~ N(0, exp(v)).
#[derive(Clone, Debug)]
pub struct Funnel {
    pub d: usize,
    pub s: f64,
}
impl RefTarget for Funnel {
    fn dim(&self) -> usize {
        self.d
    }
    fn logp(&self, x: &[f64]) -> f64 {
        let v = x[0];
        let mut lp = -v * v / (2.0 * self.s * self.s);
        for a in &x[1..] {
            lp += -0.5 * a * a * (-v).exp() - 0.5 * v;
        }
        lp
    }
    fn grad(&self, x: &[f64]) -> Vec<f64> {
        let v = x[0];
        let mut g = vec![0.0; self.d];
        g[0] = -v / (self.s * self.s);
        for i in 1..self.d {
            g[0] += 0.5 * x[i] * x[i] * (-v).exp() - 0.5;
            g[i] = -x[i] * (-v).exp();
        }
        g
    }
    fn name(&self) -> String {
        format!("Funnel(d={})", self.d)
    }
}
fn funnel_batch<B: AutodiffBackend>(s: &Funnel, x: Tensor<B, 2>) -> Tensor<B, 1> {
    let n = x.dims()[0];
    let d = s.d;
    let v = x.clone().slice([0..n, 0..1]);
    let mut lp = (v.clone() * v.clone()).mul_scalar(-1.0 / (2.0 * s.s * s.s));
    if d > 1 {
        let rest = x.slice([0..n, 1..d]);
        let r2 = (rest.clone() * rest).sum_dim(1);
        lp = lp + r2 * (-v.clone()).exp().mul_scalar(-0.5) + v.mul_scalar(-0.5 * (d - 1) as f64);
    }
    lp.squeeze::<1>(1)
}
impl_both!(Funnel, funnel_batch);

// ---------------------------------------------------------------------------------------------
/// Closed forms of the library's own targets.
#[derive(Clone, Debug)]
pub struct RosenRef {
    pub a: f64,
    pub b: f64,
}
impl RefTarget for RosenRef {
    fn dim(&self) -> usize {
        2
    }
    fn logp(&self, x: &[f64]) -> f64 {
        -((self.a - x[0]).powi(2) + self.b * (x[1] - x[0] * x[0]).powi(2))
    }
    fn grad(&self, x: &[f64]) -> Vec<f64> {
        let t = x[1] - x[0] * x[0];
        vec![2.0 * (self.a - x[0]) + 4.0 * self.b * x[0] * t, -2.0 * self.b * t]
    }
    fn name(&self) -> String {
        "Rosenbrock2D".into()
    }
}
#[derive(Clone, Debug)]
pub struct RosenNdRef {
    pub d: usize,
}
impl RefTarget for RosenNdRef {
    fn dim(&self) -> usize {
        self.d
    }
    fn logp(&self, x: &[f64]) -> f64 {
        -(0..self.d - 1).map(|i| 100.0 * (x[i + 1] - x[i] * x[i]).powi(2) + (1.0 - x[i]).powi(2)).sum::<f64>()
    }
    fn grad(&self, x: &[f64]) -> Vec<f64> {
        let d = self.d;
        let mut g = vec![0.0; d];
        for i in 0..d - 1 {
            let t = x[i + 1] - x[i] * x[i];
            g[i] += 400.0 * x[i] * t + 2.0 * (1.0 - x[i]);
            g[i + 1] += -200.0 * t;
        }
        g
    }
    fn name(&self) -> String {
        format!("RosenbrockND(d={})", self.d)
    }
}
/// closed form of DiffableGaussian2D (normalised log-density)
#[derive(Clone, Debug)]
pub struct Gauss2Ref {
    pub mean: [f64; 2],
    pub cov: [[f64; 2]; 2],
}
impl Gauss2Ref {
    pub fn inv(&self) -> ([[f64; 2]; 2], f64) {
        let c = &self.cov;
        let det = c[0][0] * c[1][1] - c[0][1] * c[1][0];
        ([[c[1][1] / det, -c[0][1] / det], [-c[1][0] / det, c[0][0] / det]], det)
    }
}
impl RefTarget for Gauss2Ref {
    fn dim(&self) -> usize {
        2
    }
    fn logp(&self, x: &[f64]) -> f64 {
        let (p, det) = self.inv();
        let d = [x[0] - self.mean[0], x[1] - self.mean[1]];
        let q = d[0] * (p[0][0] * d[0] + p[0][1] * d[1]) + d[1] * (p[1][0] * d[0] + p[1][1] * d[1]);
        -(2.0 * std::f64::consts::PI).ln() - 0.5 * det.ln() - 0.5 * q
    }
    fn grad(&self, x: &[f64]) -> Vec<f64> {
        let (p, _) = self.inv();
        let d = [x[0] - self.mean[0], x[1] - self.mean[1]];
        // gradient of -1/2 d^T P d with possibly non-symmetric P: -1/2 (P + P^T) d
        vec![
            -(p[0][0] * d[0] + 0.5 * (p[0][1] + p[1][0]) * d[1]),
            -(0.5 * (p[0][1] + p[1][0]) * d[0] + p[1][1] * d[1]),
        ]
    }
    fn name(&self) -> String {
        "DiffableGaussian2D".into()
    }
}

// ---------------------------------------------------------------------------------------------
// hostile targets (C14): bounded support / NaN regions

/// kind 0: half-space x0 > 0, -inf outside (mask);            logp = -sum x^2/2 on the support
/// kind 1: log/sqrt of negative arguments => NaN outside;      logp = sum (a ln x - b x)   (Gamma)
/// kind 2: box |x_i| < h, -inf outside (mask);                 logp = -sum x^2/2
/// kind 3: disc |x| < r via sqrt(r^2 - |x|^2) => NaN outside;  logp = ln sqrt(r^2-|x|^2)
/// kind 4: gradient NaN on the hyperplane x0 = 0 only (sqrt(|x0|) cusp is finite, gradient inf/NaN there); logp = -sum sqrt(|x|+tiny)
/// kind 5: density overflowing to +inf far out is not a bad state by the statement; instead: logp finite everywhere but
///         gradient overflow: logp = -sum cosh-like exp(x^2) capped => exp overflows to inf => logp = -inf far out
#[derive(Clone, Debug)]
pub struct Hostile {
    pub kind: u8,
    pub d: usize,
    pub p: f64,
}
impl Hostile {
    /// harness's own copy of the density: f64 log-density of a state (the C14 invariant monitor)
    pub fn logp64(&self, x: &[f64]) -> f64 {
        match self.kind {
            0 => {
                if x[0] > 0.0 {
                    -0.5 * x.iter().map(|a| a * a).sum::<f64>()
                } else {
                    f64::NEG_INFINITY
                }
            }
            1 => x.iter().map(|a| self.p * a.ln() - a).sum::<f64>(),
            2 => {
                if x.iter().all(|a| a.abs() < self.p) {
                    -0.5 * x.iter().map(|a| a * a).sum::<f64>()
                } else {
                    f64::NEG_INFINITY
                }
            }
            3 => {
                let r2: f64 = x.iter().map(|a| a * a).sum();
                (self.p * self.p - r2).sqrt().ln()
            }
            4 => -x.iter().map(|a| a.abs().sqrt()).sum::<f64>(),
            _ => -x.iter().map(|a| (a * a).exp()).sum::<f64>(),
        }
    }
    /// signed distance-like measure to the support boundary (positive inside), relative to the
    /// scale of the state: states with |margin| below the backend's resolution cannot be classified
    pub fn boundary_margin(&self, x: &[f64]) -> f64 {
        let sc = x.iter().map(|a| a.abs()).fold(self.p.abs().max(1e-300), f64::max);
        match self.kind {
            0 => x[0] / sc,
            1 => x.iter().cloned().fold(f64::INFINITY, f64::min) / sc,
            2 => (self.p - x.iter().map(|a| a.abs()).fold(0.0, f64::max)) / sc,
            3 => (self.p * self.p - x.iter().map(|a| a * a).sum::<f64>()) / (sc * sc),
            _ => f64::INFINITY,
        }
    }
    pub fn start(&self, g: &mut crate::util::Sm64) -> Vec<f64> {
        match self.kind {
            0 => {
                let mut v: Vec<f64> = (0..self.d).map(|_| g.normal()).collect();
                v[0] = g.uniform(0.01, 1.5);
                v
            }
            1 => (0..self.d).map(|_| g.uniform(0.05, 3.0)).collect(),
            2 => (0..self.d).map(|_| g.uniform(-0.95, 0.95) * self.p).collect(),
            3 => {
                let v: Vec<f64> = (0..self.d).map(|_| g.uniform(-1.0, 1.0)).collect();
                let n = v.iter().map(|a| a * a).sum::<f64>().sqrt().max(1e-9);
                let r = g.uniform(0.0, 0.95) * self.p;
                v.iter().map(|a| a / n * r).collect()
            }
            4 => (0..self.d).map(|_| g.uniform(0.05, 2.0) * if g.bool() { 1.0 } else { -1.0 }).collect(),
            _ => (0..self.d).map(|_| g.uniform(-1.0, 1.0)).collect(),
        }
    }
    pub fn name(&self) -> String {
        ["halfspace(-inf)", "gamma(ln of negative=NaN)", "box(-inf)", "disc(sqrt of negative=NaN)", "cusp(NaN/inf gradient at 0)", "exp(x^2)(overflow)"]
            [self.kind as usize]
            .to_string()
    }
}
/// closed-form side for the kinds whose log-density is NaN outside the support (1: gamma via ln x,
/// 3: disc via sqrt); the gradient formulas are those of the tensor expression
impl RefTarget for Hostile {
    fn dim(&self) -> usize {
        self.d
    }
    fn logp(&self, x: &[f64]) -> f64 {
        self.logp64(x)
    }
    fn grad(&self, x: &[f64]) -> Vec<f64> {
        match self.kind {
            1 => x.iter().map(|a| self.p / a - 1.0).collect(),
            3 => {
                let r2: f64 = x.iter().map(|a| a * a).sum();
                let den = self.p * self.p - r2;
                // d/dx ln sqrt(den) = -x/den; outside the disc the tensor expression yields NaN
                x.iter().map(|a| if den > 0.0 { -a / den } else { f64::NAN }).collect()
            }
            _ => panic!("closed-form gradient only provided for the NaN-region kinds"),
        }
    }
    fn name(&self) -> String {
        Hostile::name(self)
    }
}

fn hostile_batch<B: AutodiffBackend>(s: &Hostile, x: Tensor<B, 2>) -> Tensor<B, 1> {
    let n = x.dims()[0];
    match s.kind {
        0 => {
            let lp = (x.clone() * x.clone()).sum_dim(1).mul_scalar(-0.5);
            let x0 = x.slice([0..n, 0..1]);
            lp.mask_fill(x0.lower_equal_elem(0.0), f64::NEG_INFINITY).squeeze::<1>(1)
        }
        1 => (x.clone().log().mul_scalar(s.p) - x).sum_dim(1).squeeze::<1>(1),
        2 => {
            let lp = (x.clone() * x.clone()).sum_dim(1).mul_scalar(-0.5);
            let outside = x.abs().greater_equal_elem(s.p).float().sum_dim(1).greater_elem(0.5);
            lp.mask_fill(outside, f64::NEG_INFINITY).squeeze::<1>(1)
        }
        3 => {
            let r2 = (x.clone() * x).sum_dim(1);
            (-r2).add_scalar(s.p * s.p).sqrt().log().squeeze::<1>(1)
        }
        4 => -x.abs().sqrt().sum_dim(1).squeeze::<1>(1),
        _ => -(x.clone() * x).exp().sum_dim(1).squeeze::<1>(1),
    }
}
impl_both!(Hostile, hostile_batch);

/// Sleeping wrapper (speed profiles for the progress protocol).
#[derive(Clone, Debug)]
pub struct Slow<Tg> {
    pub inner: Tg,
    pub micros: u64,
}
impl<T, B, Tg> GradientTarget<T, B> for Slow<Tg>
where
    T: Float + Element,
    B: AutodiffBackend,
    Tg: GradientTarget<T, B>,
{
    fn unnorm_logp(&self, position: Tensor<B, 1>) -> Tensor<B, 1> {
        if self.micros > 0 {
            std::thread::sleep(std::time::Duration::from_micros(self.micros));
        }
        self.inner.unnorm_logp(position)
    }
}
impl<T, B, Tg> BatchedGradientTarget<T, B> for Slow<Tg>
where
    T: Float + Element,
    B: AutodiffBackend,
    Tg: BatchedGradientTarget<T, B>,
{
    fn unnorm_logp_batch(&self, positions: Tensor<B, 2>) -> Tensor<B, 1> {
        if self.micros > 0 {
            std::thread::sleep(std::time::Duration::from_micros(self.micros));
        }
        self.inner.unnorm_logp_batch(positions)
    }
}

/// The same distribution with a constant added to its unnormalised log-density (a sampler only
/// ever sees differences, so nothing may depend on it; large constants expose intermediate
/// values kept at less than the backend's precision).
#[derive(Clone, Debug)]
pub struct Shifted<Tg> {
    pub inner: Tg,
    pub c: f64,
}
impl<Tg: RefTarget> RefTarget for Shifted<Tg> {
    fn dim(&self) -> usize {
        self.inner.dim()
    }
    fn logp(&self, x: &[f64]) -> f64 {
        self.inner.logp(x) + self.c
    }
    fn grad(&self, x: &[f64]) -> Vec<f64> {
        self.inner.grad(x)
    }
    fn name(&self) -> String {
        format!("{}+const({:e})", self.inner.name(), self.c)
    }
}
impl<T, B, Tg> GradientTarget<T, B> for Shifted<Tg>
where
    T: Float + Element,
    B: AutodiffBackend,
    Tg: GradientTarget<T, B>,
{
    fn unnorm_logp(&self, position: Tensor<B, 1>) -> Tensor<B, 1> {
        self.inner.unnorm_logp(position).add_scalar(self.c)
    }
}
impl<T, B, Tg> BatchedGradientTarget<T, B> for Shifted<Tg>
where
    T: Float + Element,
    B: AutodiffBackend,
    Tg: BatchedGradientTarget<T, B>,
{
    fn unnorm_logp_batch(&self, positions: Tensor<B, 2>) -> Tensor<B, 1> {
        self.inner.unnorm_logp_batch(positions).add_scalar(self.c)
    }
}

/// Central-difference gradient of a RefTarget (guards the closed-form gradients).
pub fn fd_grad<R: RefTarget>(t: &R, x: &[f64]) -> Vec<f64> {
    (0..x.len())
        .map(|i| {
            let h = 1e-6 * (1.0 + x[i].abs());
            let mut a = x.to_vec();
            let mut b = x.to_vec();
            a[i] += h;
            b[i] -= h;
            (t.logp(&a) - t.logp(&b)) / (2.0 * h)
        })
        .collect()
}

/// tensor -> Vec<f64>
pub fn tv<B: Backend, const D: usize>(t: &Tensor<B, D>) -> Vec<f64> {
    t.to_data().iter::<f64>().collect()
}
pub fn vt1<B: Backend>(v: &[f64]) -> Tensor<B, 1> {
    t1::<B>(v)
}
pub fn vt2<B: Backend>(v: &[f64], r: usize, c: usize) -> Tensor<B, 2> {
    t2::<B>(v, r, c)
}
