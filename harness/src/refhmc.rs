//! f64 reference implementations: velocity-Verlet leapfrog, HMC decision, Hoffman–Gelman
//! Algorithm 6 (NUTS with dual averaging) consuming *given* random draws from typed queues.
//! Written from the paper / the property statements; shares no code with the library.

use crate::targets::RefTarget;
use std::collections::VecDeque;

pub fn dot(a: &[f64], b: &[f64]) -> f64 {
    a.iter().zip(b).map(|(x, y)| x * y).sum()
}

/// one velocity-Verlet step of size eps (eps may be negative)
pub fn leapfrog1<R: RefTarget>(t: &R, x: &[f64], p: &[f64], grad: &[f64], eps: f64) -> (Vec<f64>, Vec<f64>, Vec<f64>) {
    let ph: Vec<f64> = p.iter().zip(grad).map(|(p, g)| p + 0.5 * eps * g).collect();
    let xn: Vec<f64> = x.iter().zip(&ph).map(|(x, p)| x + eps * p).collect();
    let gn = t.grad(&xn);
    let pn: Vec<f64> = ph.iter().zip(&gn).map(|(p, g)| p + 0.5 * eps * g).collect();
    (xn, pn, gn)
}

/// L leapfrog steps from (x, p)
pub fn leapfrog<R: RefTarget>(t: &R, x: &[f64], p: &[f64], eps: f64, l: usize) -> (Vec<f64>, Vec<f64>) {
    let mut x = x.to_vec();
    let mut p = p.to_vec();
    let mut g = t.grad(&x);
    for _ in 0..l {
        let (xn, pn, gn) = leapfrog1(t, &x, &p, &g, eps);
        x = xn;
        p = pn;
        g = gn;
    }
    (x, p)
}

pub fn hamiltonian<R: RefTarget>(t: &R, x: &[f64], p: &[f64]) -> f64 {
    -t.logp(x) + 0.5 * dot(p, p)
}

// ---------------------------------------------------------------------------------------------
// NUTS, Algorithm 6

#[derive(Clone, Debug, Default)]
pub struct Draws {
    pub dirs: VecDeque<i8>,
    pub merge_u: VecDeque<f64>,
    pub accept_u: VecDeque<f64>,
}

#[derive(Clone, Debug)]
pub struct Tree {
    pub xm: Vec<f64>,
    pub rm: Vec<f64>,
    pub gm: Vec<f64>,
    pub xp: Vec<f64>,
    pub rp: Vec<f64>,
    pub gp: Vec<f64>,
    pub xprime: Vec<f64>,
    pub n: usize,
    pub s: bool,
    pub alpha: f64,
    pub n_alpha: usize,
    /// smallest |margin| of any discrete decision taken inside (slice test, divergence, U-turn)
    pub margin: f64,
    /// smallest margin of the decisions that determine whether the trajectory goes on (divergence
    /// bound, U-turn tests) - the slice-admission tests and selection uniforms do not enter
    pub margin_s: f64,
    pub diverged: bool,
    pub leaves: usize,
    /// queue underflow: the implementation drew fewer uniforms than Algorithm 6 needs
    pub starved: bool,
    pub saw_nan: bool,
}

pub const DELTA_MAX: f64 = 1000.0;

fn uturn_ok(xm: &[f64], xp: &[f64], rm: &[f64], rp: &[f64]) -> (bool, f64) {
    let diff: Vec<f64> = xp.iter().zip(xm).map(|(a, b)| a - b).collect();
    let dm = dot(&diff, rm);
    let dp = dot(&diff, rp);
    let scale = (dot(&diff, &diff).sqrt() * (dot(rm, rm).sqrt().max(dot(rp, rp).sqrt()))).max(1e-300);
    // NaN dots: comparisons false => stop; margin 0 marks it as soft only if values are NaN
    let ok = dm >= 0.0 && dp >= 0.0;
    let margin = if dm.is_nan() || dp.is_nan() { f64::INFINITY } else { dm.abs().min(dp.abs()) / scale };
    (ok, margin)
}

#[allow(clippy::too_many_arguments)]
pub fn build_tree<R: RefTarget>(
    t: &R,
    x: &[f64],
    r: &[f64],
    g: &[f64],
    logu: f64,
    v: i8,
    j: usize,
    eps: f64,
    joint0: f64,
    draws: &mut Draws,
) -> Tree {
    if j == 0 {
        let (xn, rn, gn) = leapfrog1(t, x, r, g, v as f64 * eps);
        let joint = t.logp(&xn) - 0.5 * dot(&rn, &rn);
        let n = (logu < joint) as usize;
        let s = logu - DELTA_MAX < joint;
        let m1 = if joint.is_nan() { f64::INFINITY } else { (joint - logu).abs() / (1.0 + joint.abs().max(logu.abs())) };
        let m2 = if joint.is_nan() { f64::INFINITY } else { (joint - (logu - DELTA_MAX)).abs() / (1.0 + joint.abs().max(logu.abs())) };
        let mut alpha = (joint - joint0).exp().min(1.0);
        if alpha.is_nan() {
            alpha = 0.0; // a NaN energy is a rejected proposal (the statement is silent; comparisons skip it)
        }
        return Tree {
            xm: xn.clone(),
            rm: rn.clone(),
            gm: gn.clone(),
            xp: xn.clone(),
            rp: rn.clone(),
            gp: gn.clone(),
            xprime: xn,
            n,
            s,
            alpha,
            n_alpha: 1,
            margin: m1.min(m2),
            margin_s: m2,
            diverged: !s,
            leaves: 1,
            starved: false,
            saw_nan: joint.is_nan(),
        };
    }
    let mut a = build_tree(t, x, r, g, logu, v, j - 1, eps, joint0, draws);
    if a.s {
        let b = if v == -1 {
            build_tree(t, &a.xm.clone(), &a.rm.clone(), &a.gm.clone(), logu, v, j - 1, eps, joint0, draws)
        } else {
            build_tree(t, &a.xp.clone(), &a.rp.clone(), &a.gp.clone(), logu, v, j - 1, eps, joint0, draws)
        };
        if v == -1 {
            a.xm = b.xm.clone();
            a.rm = b.rm.clone();
            a.gm = b.gm.clone();
        } else {
            a.xp = b.xp.clone();
            a.rp = b.rp.clone();
            a.gp = b.gp.clone();
        }
        let u = match draws.merge_u.pop_front() {
            Some(u) => u,
            None => {
                a.starved = true;
                0.5
            }
        };
        let ratio = b.n as f64 / ((a.n + b.n).max(1)) as f64;
        if u < ratio {
            a.xprime = b.xprime.clone();
        }
        a.n += b.n;
        let (ok, m) = uturn_ok(&a.xm, &a.xp, &a.rm, &a.rp);
        a.margin = a.margin.min(b.margin);
        a.margin_s = a.margin_s.min(b.margin_s);
        if b.s {
            // the U-turn test only matters if both subtrees are still alive
            a.margin = a.margin.min(m);
            a.margin_s = a.margin_s.min(m);
        }
        a.s = a.s && b.s && ok;
        a.alpha += b.alpha;
        a.n_alpha += b.n_alpha;
        a.diverged = a.diverged || b.diverged;
        a.leaves += b.leaves;
        a.starved = a.starved || b.starved;
        a.saw_nan = a.saw_nan || b.saw_nan;
    }
    a
}

#[derive(Clone, Debug)]
pub struct Transition {
    pub next: Vec<f64>,
    pub depth: usize,
    pub n: usize,
    pub alpha: f64,
    pub n_alpha: usize,
    pub margin: f64,
    pub margin_s: f64,
    /// the recorded directions ran out while the trajectory had neither turned nor diverged
    pub starved_top: bool,
    pub diverged: bool,
    pub leaves: usize,
    /// index (0 = start) identifying which proposal was adopted: number of adoptions
    pub adoptions: usize,
    pub starved: bool,
    pub leftover: usize,
    pub selected_second_subtree: usize,
    pub saw_nan: bool,
}

/// One NUTS transition from theta with momentum r0, slice level logu, step size eps, consuming
/// the given directions and uniforms. `accept_cmp(u, n_prime, n)` decides the top-level adoption
/// (so the caller can evaluate min(1, n'/n) in the implementation's scalar type).
pub fn transition<R: RefTarget>(
    t: &R,
    theta: &[f64],
    r0: &[f64],
    logu: f64,
    joint0: f64,
    eps: f64,
    draws: &mut Draws,
    max_depth: usize,
) -> Transition {
    let g0 = t.grad(theta);
    let (mut xm, mut xp) = (theta.to_vec(), theta.to_vec());
    let (mut rm, mut rp) = (r0.to_vec(), r0.to_vec());
    let (mut gm, mut gp) = (g0.clone(), g0);
    let mut cur = theta.to_vec();
    let (mut j, mut n, mut s) = (0usize, 1usize, true);
    let (mut alpha, mut n_alpha) = (0.0, 0usize);
    let mut margin = f64::INFINITY;
    let mut margin_s = f64::INFINITY;
    let mut starved_top = false;
    let mut diverged = false;
    let mut leaves = 0;
    let mut adoptions = 0;
    let mut starved = false;
    let mut saw_nan = false;
    while s && j <= max_depth {
        let v = match draws.dirs.pop_front() {
            Some(v) => v,
            None => {
                starved = true;
                starved_top = true;
                break;
            }
        };
        let tr = if v == -1 {
            let tr = build_tree(t, &xm, &rm, &gm, logu, v, j, eps, joint0, draws);
            xm = tr.xm.clone();
            rm = tr.rm.clone();
            gm = tr.gm.clone();
            tr
        } else {
            let tr = build_tree(t, &xp, &rp, &gp, logu, v, j, eps, joint0, draws);
            xp = tr.xp.clone();
            rp = tr.rp.clone();
            gp = tr.gp.clone();
            tr
        };
        alpha = tr.alpha;
        n_alpha = tr.n_alpha;
        margin = margin.min(tr.margin);
        margin_s = margin_s.min(tr.margin_s);
        diverged = diverged || tr.diverged;
        leaves += tr.leaves;
        starved = starved || tr.starved;
        saw_nan = saw_nan || tr.saw_nan;
        let u = match draws.accept_u.pop_front() {
            Some(u) => u,
            None => {
                starved = true;
                0.5
            }
        };
        let ratio = (tr.n as f64 / n as f64).min(1.0);
        if tr.s {
            // soft if u is within float32 rounding of the ratio
            if (u - ratio).abs() <= 2e-7 * ratio.max(1e-30) && ratio < 1.0 {
                margin = 0.0;
            }
            if u < ratio {
                cur = tr.xprime.clone();
                adoptions += 1;
            }
        }
        n += tr.n;
        let (ok, m) = uturn_ok(&xm, &xp, &rm, &rp);
        if tr.s {
            margin = margin.min(m);
            margin_s = margin_s.min(m);
        }
        s = tr.s && ok;
        j += 1;
    }
    Transition {
        next: cur,
        depth: j,
        n,
        alpha,
        n_alpha,
        margin,
        margin_s,
        starved_top,
        diverged,
        leaves,
        adoptions,
        starved,
        leftover: draws.dirs.len() + draws.merge_u.len() + draws.accept_u.len(),
        selected_second_subtree: 0,
        saw_nan,
    }
}

/// The full leapfrog orbit visited by a transition with the given directions: positions and joint
/// log-densities of every point, forward and backward of the start.
pub fn orbit<R: RefTarget>(t: &R, theta: &[f64], r0: &[f64], eps: f64, dirs: &[i8]) -> Vec<(Vec<f64>, f64)> {
    let mut fwd = 0usize;
    let mut bwd = 0usize;
    for (j, v) in dirs.iter().enumerate() {
        if *v == 1 {
            fwd += 1 << j;
        } else {
            bwd += 1 << j;
        }
    }
    let mut out = vec![(theta.to_vec(), t.logp(theta) - 0.5 * dot(r0, r0))];
    for (steps, sign) in [(fwd, 1.0), (bwd, -1.0)] {
        let (mut x, mut r, mut g) = (theta.to_vec(), r0.to_vec(), t.grad(theta));
        for _ in 0..steps {
            let (xn, rn, gn) = leapfrog1(t, &x, &r, &g, sign * eps);
            x = xn;
            r = rn;
            g = gn;
            out.push((x.clone(), t.logp(&x) - 0.5 * dot(&r, &r)));
        }
    }
    out
}

/// One step of Nesterov dual averaging as used by NUTS (gamma, t0, kappa fixed by the statement).
#[derive(Clone, Debug)]
pub struct DualAvg {
    pub mu: f64,
    pub h_bar: f64,
    pub eps: f64,
    pub eps_bar: f64,
}
impl DualAvg {
    pub fn update(&mut self, m: usize, delta: f64, stat: f64, adapt: bool) {
        let (gamma, t0, kappa) = (0.05, 10.0, 0.75);
        let eta = 1.0 / (m as f64 + t0);
        self.h_bar = (1.0 - eta) * self.h_bar + eta * (delta - stat);
        if adapt {
            let mf = m as f64;
            self.eps = (self.mu - mf.sqrt() / gamma * self.h_bar).exp();
            let e = mf.powf(-kappa);
            self.eps_bar = ((1.0 - e) * self.eps_bar.ln() + e * self.eps.ln()).exp();
        } else {
            self.eps = self.eps_bar;
        }
    }
}
