//! f64 reference implementations of the diagnostics (split R-hat, Geyer ESS, batch statistics).
//! Written from the definitions in the property statements, not from the library's code.

/// data[c][t] for one parameter. Returns the split half-chains (first half, last half; the middle
/// draw of an odd-length chain belongs to neither).
pub fn split_halves(data: &[Vec<f64>]) -> Vec<Vec<f64>> {
    let n = data[0].len();
    let h = n / 2;
    let mut out: Vec<Vec<f64>> = data.iter().map(|c| c[..h].to_vec()).collect();
    out.extend(data.iter().map(|c| c[n - h..].to_vec()));
    out
}

#[derive(Clone, Debug)]
pub struct WithinVar {
    pub w: f64,
    pub b_over_n: f64,
    pub var_plus: f64,
    pub rhat: f64,
}

/// Within/between decomposition of m chains of length N. `ddof` = 0 or 1 for the within-chain
/// variance (the statement fixes only the combination rule).
pub fn within_var(chains: &[Vec<f64>], ddof: usize) -> WithinVar {
    let m = chains.len() as f64;
    let n = chains[0].len() as f64;
    let means: Vec<f64> = chains.iter().map(|c| c.iter().sum::<f64>() / n).collect();
    let overall = means.iter().sum::<f64>() / m;
    let w = chains
        .iter()
        .zip(&means)
        .map(|(c, mu)| c.iter().map(|x| (x - mu) * (x - mu)).sum::<f64>() / (n - ddof as f64))
        .sum::<f64>()
        / m;
    let b_over_n = means.iter().map(|mu| (mu - overall) * (mu - overall)).sum::<f64>() / (m - 1.0);
    let var_plus = (n - 1.0) / n * w + b_over_n;
    WithinVar {
        w,
        b_over_n,
        var_plus,
        rhat: (var_plus / w).sqrt(),
    }
}

/// split R-hat of one parameter under the given within-variance convention
pub fn split_rhat(data: &[Vec<f64>], ddof: usize) -> WithinVar {
    within_var(&split_halves(data), ddof)
}

/// biased (1/N) autocovariance of one chain at all lags, direct sum
pub fn autocov(x: &[f64]) -> Vec<f64> {
    let n = x.len();
    let mu = x.iter().sum::<f64>() / n as f64;
    (0..n)
        .map(|lag| (0..n - lag).map(|t| (x[t] - mu) * (x[t + lag] - mu)).sum::<f64>() / n as f64)
        .collect()
}

#[derive(Clone, Debug)]
pub struct EssRef {
    /// every ESS value reachable when pair sums within `delta` of zero may fall on either side
    pub candidates: Vec<f64>,
    /// pair sums (before clamping)
    pub pairs: Vec<f64>,
    /// index of the first non-positive pair (definite), if any
    pub cut: Option<usize>,
    pub ambiguous: usize,
}

/// Geyer initial-positive, monotone estimator on the split half-chains.
pub fn ess(data: &[Vec<f64>], ddof: usize, delta: f64) -> EssRef {
    let halves = split_halves(data);
    let m = halves.len();
    let n = halves[0].len();
    let wv = within_var(&halves, ddof);
    let acovs: Vec<Vec<f64>> = halves.iter().map(|c| autocov(c)).collect();
    let rho: Vec<f64> = (0..n)
        .map(|t| {
            let avg = acovs.iter().map(|a| a[t]).sum::<f64>() / m as f64;
            1.0 - (wv.w - avg) / wv.var_plus
        })
        .collect();
    let pairs: Vec<f64> = (0..n / 2).map(|k| rho[2 * k] + rho[2 * k + 1]).collect();
    // enumerate truncation points: the definite one plus every ambiguous earlier pair
    let mut stops: Vec<usize> = vec![];
    let mut cut = None;
    let mut ambiguous = 0;
    for (k, p) in pairs.iter().enumerate() {
        if p.is_nan() {
            // NaN compares false with `<= 0`: the statement's estimator does not stop; keep going
            continue;
        }
        if *p <= -delta {
            cut = Some(k);
            stops.push(k);
            break;
        }
        if p.abs() < delta {
            ambiguous += 1;
            stops.push(k);
        }
    }
    if cut.is_none() {
        stops.push(pairs.len());
    }
    let mut candidates = vec![];
    for stop in stops {
        let mut sum = 0.0;
        let mut min = if n >= 2 { pairs.first().cloned().unwrap_or(0.0) } else { 0.0 };
        for p in pairs.iter().take(stop) {
            let mut pt = *p;
            if pt > min {
                pt = min;
            }
            min = pt;
            sum += pt;
        }
        let tau = -1.0 + 2.0 * sum;
        candidates.push(m as f64 * n as f64 / tau);
    }
    EssRef {
        candidates,
        pairs,
        cut,
        ambiguous,
    }
}

/// mean, unbiased variance
pub fn mean_uvar(xs: &[f64]) -> (f64, f64) {
    let n = xs.len() as f64;
    let m = xs.iter().sum::<f64>() / n;
    let v = xs.iter().map(|x| (x - m) * (x - m)).sum::<f64>() / (n - 1.0);
    (m, v)
}

/// classical (unsplit) R-hat from per-chain draws: sqrt(var+/W), W = mean unbiased variance
pub fn classical_rhat(chains: &[Vec<f64>]) -> f64 {
    within_var(chains, 1).rhat
}
